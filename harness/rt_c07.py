"""Runtime side of C07: esr.fitting.test_all_Fisher.convert_params against the MDL code-length rule evaluated from
the analytic Hessian.

payload {"seed", "configs": [cfg...], "limit_s"}; kinds of cfg
  gauss  : linear family sum a_j g_j(x) under GaussLikelihood; "t": signed targets |theta_j| sqrt(H_jj/12) (the data are built
           so that the WLS optimum is exactly theta_j = t_j sqrt(12/H_jj)); "cats": category names (for the key)
  recip  : 'a0 + x/a1' (a1 = 1/b, b linear): snapping a1 makes the likelihood infinite -> a1 must be kept
  quad   : a stand-in likelihood  c0 + (a-m)^T M (a-m)/2  with prescribed M (positive definite, indefinite, flat, NaN ...)
  nparam0: parameter-free function
  flat   : function strings in which one parameter has no influence (zero curvature) -> NaN
  infnll : data for which the Gaussian NLL overflows to +inf everywhere (non-finite curvature) -> NaN
"""
import math, zlib
import numpy as np
from hcommon import io_main, quiet
import fitlib


class OracleError(Exception):
    """The constructed case is not what it is meant to be (machinery problem, never a violation)."""


def dflat(i, j, mp):
    return int(i * mp - (i - 1) * i / 2) + (j - i)


def make_xs(cfg):
    rs = np.random.RandomState(cfg["dseed"] % (2 ** 32))
    n = cfg.get("n", 30)
    x = np.sort(rs.uniform(0.5, 3.0, n))
    sigma = cfg.get("sigma", 0.2)
    s = sigma * (0.5 + rs.rand(n)) if cfg.get("hetero") else np.full(n, sigma)
    return rs, x, s


def call(fstr, L, theta, nll, mp, limit):
    import esr.fitting.test_all_Fisher as tf
    fcn, eq, integrated = L.run_sympify(fstr)
    th = np.zeros(mp)
    th[:len(theta)] = theta
    with fitlib.alarm_limit(limit), quiet():
        return tf.convert_params(fcn, eq, integrated, th.copy(), L, nll, max_param=mp)


def compare(cfg, fstr, L, theta, H, nll_ml, nll_of, out, mp, base, want=None):
    """Compare convert_params' output with the oracle.  Returns None or (key, text)."""
    params, nll, deriv, codelen = out
    k0 = len(theta)
    want = want or fitlib.codelen_oracle(theta, np.diag(H), nll_of, nll_ml)
    desc = "convert_params(%r, theta_ML=%s, max_param=%d) [I_ii=%s, |theta|sqrt(I_ii/12)=%s]" % (
        fstr, [float(t) for t in theta], mp, np.diag(H).tolist(), (np.abs(theta) * np.sqrt(np.abs(np.diag(H)) / 12)).tolist())
    try:
        cl = float(codelen)
    except Exception:
        return ("c07:codelen-type:" + base, desc + " returned codelen %r" % (codelen,))
    if want["status"] == "nan":
        if not math.isnan(cl):
            return ("c07:finite-codelen-for-bad-curvature:" + base, desc + " returned codelen %r; NaN expected (non-positive or non-finite curvature)" % cl)
        return None
    assert want["status"] == "ok", want
    if not math.isfinite(cl) or abs(cl - want["codelen"]) > 1e-4 + 1e-5 * abs(want["codelen"]):
        return ("c07:codelen:" + base, desc + " returned codelen %r; formula gives %r (k=%d kept, snapped=%s)" % (cl, want["codelen"], want["k"], want["snapped"]))
    if want["k"] == 0 and cl != 0:
        return ("c07:codelen:" + base, desc + " returned codelen %r with no parameter kept; 0 expected" % cl)
    params = np.asarray(params, float)
    if params.shape != (mp,):
        return ("c07:param-shape:" + base, desc + " returned %d parameters" % params.size)
    wp = np.zeros(mp)
    wp[:k0] = want["params"]
    if not np.all(np.abs(params - wp) <= 1e-12 * np.abs(wp)):
        return ("c07:params:" + base, desc + " returned params %s; expected %s (zeros for snapped parameters)" % (params.tolist(), wp.tolist()))
    nll = float(nll)
    if not (abs(nll - want["nll"]) <= 1e-8 * max(1.0, abs(want["nll"]))):
        return ("c07:nll:" + base, desc + " returned negloglike %r; the likelihood at the reported parameters is %r (input negloglike %r)" % (nll, want["nll"], nll_ml))
    # deriv layout
    deriv = np.asarray(deriv, float)
    if deriv.shape != (mp * (mp + 1) // 2,):
        return ("c07:deriv-shape:" + base, desc + " returned deriv of length %d" % deriv.size)
    for i in range(k0):
        for j in range(i, k0):
            got = deriv[dflat(i, j, mp)]
            scale = math.sqrt(abs(H[i][i] * H[j][j]))
            if not (abs(got - H[i][j]) <= 1e-3 * scale):
                return ("c07:deriv-layout:" + base, desc + " deriv[%d] = %r, expected H[%d][%d] = %r" % (dflat(i, j, mp), got, i, j, H[i][j]))
    return None


def run_one(cfg, limit):
    kind = cfg["kind"]
    mp = cfg.get("max_param", 4)
    cats = ",".join(cfg.get("cats", []))
    if kind == "gauss":
        rs, x, s = make_xs(cfg)
        names = cfg["basis"]
        G = fitlib.design(x, names)
        A = G / s[:, None]
        H = A.T @ A
        theta = np.array(cfg["t"], float) * np.sqrt(12.0 / np.diag(H))
        y = fitlib.data_with_optimum(G, s, theta, rs, cfg.get("resid", 1.0))
        th_w, nll_w, H_w, rank, sv = fitlib.wls(G, y, s)
        nll_ml = fitlib.gauss_nll(G @ theta, y, s)
        if abs(nll_ml - nll_w) > 1e-9 * max(1.0, abs(nll_w)) or (rank == len(names) and not np.all(np.abs(th_w - theta) <= 1e-6 * np.abs(theta) + 1e-8 * np.sqrt(12.0 / np.diag(H)))):
            raise OracleError("oracle: constructed optimum is not the WLS optimum (%s vs %s)" % (theta, th_w))
        fstr = cfg.get("fstr") or fitlib.fstring(names)
        L = fitlib.mk_gauss(x, y, s)
        base = "%s:%s" % (fstr.replace(" ", ""), cats)
        nll_of = lambda p: fitlib.gauss_nll(G @ np.asarray(p, float), y, s)
        out = call(fstr, L, theta, nll_ml, mp, limit)
        bad = compare(cfg, fstr, L, theta, H, nll_ml, nll_of, out, mp, base)
        if bad is None:
            # the reported NLL is the likelihood at the reported parameters (through the real likelihood as well)
            fn = fitlib.lambdify_like_fit(L, fstr, len(names))
            back = float(L.negloglike(np.asarray(out[0], float)[:len(names)], fn))
            if not (abs(back - float(out[1])) <= 1e-8 * max(1.0, abs(back))):
                bad = ("c07:nll:" + base, "convert_params(%r) reports negloglike %r but negloglike(reported params %s) = %r" % (fstr, float(out[1]), list(out[0]), back))
        return fstr, bad
    if kind == "recip":
        rs, x, s = make_xs(cfg)
        G = fitlib.design(x, ["1", "x"])
        A = G / s[:, None]
        Hl = A.T @ A
        lin = np.array(cfg["t"], float) * np.sqrt(12.0 / np.diag(Hl))      # (a0, b)
        y = fitlib.data_with_optimum(G, s, lin, rs, 1.0)
        a0_, a1_ = lin[0], 1.0 / lin[1]
        theta = np.array([a0_, a1_])
        # Hessian in (a0, a1): f = a0 + x/a1, df/da1 = -x/a1^2; the residual term vanishes (residual orthogonal to x)
        J = np.column_stack([np.ones_like(x), -x / a1_ ** 2]) / s[:, None]
        H = J.T @ J
        nll_ml = fitlib.gauss_nll(G @ lin, y, s)
        fstr = "a0 + x/a1"
        L = fitlib.mk_gauss(x, y, s)
        base = "%s:%s" % (fstr.replace(" ", ""), cats)

        def nll_of(p):
            with np.errstate(all="ignore"):
                f = p[0] + x / np.float64(p[1])
                if not np.all(np.isfinite(f)):
                    return float("inf")
            return fitlib.gauss_nll(f, y, s)
        nst = np.abs(theta) * np.sqrt(np.diag(H) / 12)
        # expected: a1 can never be dropped (likelihood becomes infinite); a0 is dropped iff below threshold
        snapped = [bool(nst[0] < 1), False]
        pw = theta.copy()
        if snapped[0]:
            pw[0] = 0.0
        kept = [i for i in range(2) if not snapped[i]]
        cl = -len(kept) / 2.0 * math.log(3) + sum(0.5 * math.log(H[i][i]) + math.log(abs(theta[i])) for i in kept)
        want = {"status": "ok", "snapped": snapped, "k": len(kept), "codelen": cl, "params": pw.tolist(),
                "nll": nll_of(pw) if snapped[0] else nll_ml}
        if not (nst[1] < 1):
            raise OracleError("oracle: recip case needs a1 below threshold")
        out = call(fstr, L, theta, nll_ml, mp, limit)
        return fstr, compare(cfg, fstr, L, theta, H, nll_ml, nll_of, out, mp, base, want=want)
    if kind == "quad":
        from esr.fitting.likelihood import GaussLikelihood
        M = np.array([[float(v) for v in row] for row in cfg["M"]], float)
        k = M.shape[0]
        Hd = np.diag(M).copy()
        if cfg.get("t") is not None:
            with np.errstate(all="ignore"):
                m = np.array(cfg["t"], float) * np.sqrt(12.0 / Hd)
        else:
            m = np.array(cfg["m"], float)
        c0 = cfg.get("c0", 12.5)

        class QuadLike(GaussLikelihood):
            def negloglike(self, a, eq_numpy, **kw):
                d = np.atleast_1d(np.asarray(a, float)) - m
                return c0 + 0.5 * float(d @ M @ d)
        L = QuadLike.__new__(QuadLike)
        L.is_mse = False
        L.xvar = np.linspace(0.5, 3, 5)
        fstr = fitlib.fstring(["1", "x", "x**2", "1/x"][:k])
        base = "quad%d:%s:%s" % (k, cfg.get("tag", ""), cats)
        nll_of = lambda p: c0 + 0.5 * float((np.asarray(p, float) - m) @ M @ (np.asarray(p, float) - m))
        out = call(fstr, L, m, c0, mp, limit)
        return "quad:" + cfg.get("tag", "") + ":" + fstr, compare(cfg, "quadratic stand-in M=%s" % M.tolist(), L, m, M, c0, nll_of, out, mp, base)
    if kind == "nparam0":
        rs, x, s = make_xs(cfg)
        y = 1 + x + s * rs.randn(len(x))
        L = fitlib.mk_gauss(x, y, s)
        fstr = cfg["fstr"]
        fn = fitlib.lambdify_like_fit(L, fstr, 0)
        nll0 = float(L.negloglike([], fn))
        params, nll, deriv, codelen = call(fstr, L, [], nll0, mp, limit)
        base = fstr.replace(" ", "")
        if not (np.asarray(params).shape == (mp,) and np.all(np.asarray(params) == 0)):
            return fstr, ("c07:nparam0-params:" + base, "convert_params(%r) returned params %s for a parameter-free function" % (fstr, list(params)))
        if float(nll) != nll0:
            return fstr, ("c07:nparam0-nll:" + base, "convert_params(%r) changed negloglike %r -> %r" % (fstr, nll0, float(nll)))
        if not (float(codelen) == 0.0):
            return fstr, ("c07:nparam0-codelen:" + base, "convert_params(%r) returned codelen %r for a parameter-free function; 0 expected" % (fstr, codelen))
        return fstr, None
    if kind in ("flat", "infnll"):
        rs, x, s = make_xs(cfg)
        fstr = cfg["fstr"]
        k = cfg["nparam"]
        theta = np.array(cfg["theta"], float)
        if kind == "infnll":
            y = np.full(len(x), 1e200)
        else:
            y = 1 + x + s * rs.randn(len(x))
        L = fitlib.mk_gauss(x, y, s)
        fn = fitlib.lambdify_like_fit(L, fstr, k)
        nll0 = float(L.negloglike(theta, fn))
        if kind == "infnll" and nll0 != float("inf"):
            raise OracleError("oracle: infnll case is not +inf")
        if kind == "flat":
            # void unless the NLL really does not depend on the flat parameter
            j = cfg["flat_index"]
            for d in (-1.0, 0.5, 1e-3, 7.0):
                t2 = theta.copy()
                t2[j] += d
                if float(L.negloglike(t2, fn)) != nll0:
                    raise OracleError("oracle: %r is not flat in a%d" % (fstr, j))
        out = call(fstr, L, theta, nll0, mp, limit)
        cl = float(out[3])
        base = "%s:%s" % (fstr.replace(" ", ""), kind)
        if not math.isnan(cl):
            return fstr, ("c07:finite-codelen-for-bad-curvature:" + base,
                          "convert_params(%r, theta_ML=%s) returned codelen %r; NaN expected (%s)" % (
                              fstr, theta.tolist(), cl, "the likelihood does not depend on a%d: I_%d%d = 0" % (cfg["flat_index"], cfg["flat_index"], cfg["flat_index"])
                              if kind == "flat" else "the likelihood is +inf around theta: curvature not finite"))
        return fstr, None
    if kind == "negcurv":
        # a stationary point of the NLL with clearly negative curvature: f = c(a0) x with c'(theta) = 0, c''(theta) = 2
        rs, x, s = make_xs(cfg)
        fstr = cfg["fstr"]
        th0, c_at = {"(a0*a0 - 2*a0)*x": (1.0, -1.0), "a0*a0*x - 4*a0*x": (2.0, -4.0), "x*(a0*a0 - 6*a0)": (3.0, -9.0)}[fstr]
        y = cfg["slope"] * x + s * rs.randn(len(x))
        curv = float(np.sum(-(y - c_at * x) * 2.0 * x / s ** 2))
        if not curv < -1e-3:
            raise OracleError("oracle: negcurv case has curvature %r" % curv)
        L = fitlib.mk_gauss(x, y, s)
        nll0 = fitlib.gauss_nll(c_at * x, y, s)
        out = call(fstr, L, [th0], nll0, mp, limit)
        cl = float(out[3])
        base = "%s:dseed=%d" % (fstr.replace(" ", ""), cfg["dseed"])
        if not math.isnan(cl):
            return fstr, ("c07:finite-codelen-for-bad-curvature:" + base,
                          "convert_params(%r, theta_ML=[%r]) under GaussLikelihood (n=%d, sigma=%g, data seed %d): d2(NLL)/da0^2 = %.6g < 0 at theta_ML, "
                          "returned codelen %r (Hessian entry reported: %r); NaN expected" % (fstr, th0, len(x), cfg["sigma"], cfg["dseed"], curv, cl, float(out[2][0])))
        return fstr, None
    raise ValueError(kind)


def main(p):
    import warnings
    warnings.filterwarnings("ignore")
    limit = p.get("limit_s", 300)
    fails, cases, distinct = [], 0, set()
    for cfg in p["configs"]:
        cases += 1
        np.random.seed((p.get("seed", 0) * 1000003 + zlib.crc32(cfg["id"].encode())) % (2 ** 32))
        try:
            fstr, bad = run_one(cfg, limit)
        except fitlib.alarm_limit.Expired as e:
            fstr, bad = cfg["id"], ("c07:no-return:" + cfg["id"].replace(" ", ""), "convert_params did not return (%s): %s" % (cfg["id"], e))
        except OracleError:
            raise
        except Exception as e:
            import traceback
            fstr, bad = cfg["id"], ("c07:raised:%s:%s" % (type(e).__name__, cfg["id"].rsplit(":r", 1)[0].replace(" ", "")),
                                    "convert_params raised %s: %s (%s) %s" % (type(e).__name__, e, cfg["id"], traceback.format_exc()[-600:]))
        distinct.add("%s|%s|%s" % (cfg["kind"], fstr, ",".join(cfg.get("cats", []))))
        if bad:
            fails.append({"id": cfg["id"], "key": bad[0], "error": bad[1], "cfg": cfg} if len(fails) < 5 else {"id": cfg["id"], "key": bad[0], "error": bad[1][:200]})
    return {"cases": cases, "distinct": len(distinct), "distinct_keys": sorted(distinct), "failures": fails[:25], "n_failures": len(fails)}


if __name__ == "__main__":
    io_main(main)
