"""Run generation + the four fitting stages for several rank counts (real code, stand-in MPI)
and return the stage outputs as JSON.  Used by C14 (completion / row alignment), C13, C16."""
import os, sys, json, time, shutil
import numpy as np
from hcommon import io_main
import stages


def load_table(path):
    if not os.path.exists(path):
        return None
    rows = []
    with open(path) as f:
        for line in f:
            line = line.strip()
            if line:
                rows.append(line.split())
    return rows


def main(p):
    work = os.environ["ESRV_WORK"]
    runname, comp = p["runname"], p["comp"]
    out = {"gen": None, "runs": {}}
    t0 = time.time()
    gen_status = []
    for c in p.get("gen_compl", [comp]):
        r = stages.generate(runname, c, P=p.get("gen_P", 1), basis=p.get("basis"))
        gen_status.append(stages.statuses(r))
    out["gen"] = gen_status
    out["gen_s"] = time.time() - t0
    lib = stages.load_library(runname, comp)
    out["n_unique"] = len(lib["unique_equations"] or [])
    out["n_all"] = len(lib["all_equations"] or [])
    out["unique"] = lib["unique_equations"]
    out["matches"] = lib["matches"]
    d = p["data"]
    for P in p["P_list"]:
        dd = os.path.join(work, "data_P%d" % P)
        os.makedirs(dd)
        stages.write_gauss_data(dd + "/d.dat", np.array(d["x"]), np.array(d["y"]), np.array(d["yerr"]))
        rec = {"stages": {}, "tables": {}}
        for st in stages.STAGES:
            kw = dict(p.get("kwargs", {}).get(st, {}))
            t1 = time.time()
            delay = None
            if p.get("perturb"):
                delay = {"seed": p.get("seed", 0) + P, "p": 0.5, "dt": 0.05, "slow_ranks": [P - 1] if P > 1 else []}
            r = stages.run_stage(st, comp, p.get("cls", "GaussLikelihood"), "d.dat", "run", dd, runname, P=P,
                                 timeout=p.get("stage_timeout", 600), kwargs=kw, delay_spec=delay)
            ss, errs = stages.statuses(r)
            rec["stages"][st] = {"status": ss, "errors": errs[:3], "s": time.time() - t1}
            if any(s != "ok" for s in ss):
                break
        od = stages.out_dir(dd, "run")
        for nm, fn in (("negloglike", "negloglike_comp%d.dat" % comp), ("codelen", "codelen_comp%d_deriv.dat" % comp),
                       ("derivs", "derivs_comp%d.dat" % comp), ("matches", "codelen_matches_comp%d.dat" % comp),
                       ("combine", "combine_DL_comp%d.dat" % comp)):
            rec["tables"][nm] = load_table(os.path.join(od, fn))
        fp = os.path.join(od, "final_%d.dat" % comp)
        rec["final"] = [l.split(";") for l in open(fp).read().splitlines()] if os.path.exists(fp) else None
        pd = os.path.join(dd, "fitting", "output", "partial_run")
        rec["leftover_partials"] = sorted(os.listdir(pd)) if os.path.isdir(pd) else None
        out["runs"][str(P)] = rec
        if not p.get("keep"):
            shutil.rmtree(dd, ignore_errors=True)
    return out


if __name__ == "__main__":
    io_main(main)
