"""C05 bounded stand-ins (real code: simplifier.load_subs, simplifier.convert_params, match.main).

mode "convert":  payload {seed, count3, chunk, nchunks} or {cases: [...]}.
    Chains of recorded substitutions (the textual forms sympy_simplify emits) are written to an inv_subs
    file, read back with the real load_subs and handed to the real convert_params together with random
    parameter values and random symmetric positive-definite Fisher matrices (flattened upper triangle,
    padded to n columns as in derivs_comp<n>.dat).  Oracle: the map is composed from hand-written mpmath
    templates (s1 o s2 o ... o sm), its Jacobian by mpmath numerical differentiation at 30 digits,
    F' = J^-T F J^-1 with mpmath matrices.

mode "match":    payload {seed, dataset, P, comp} or the same with explicit "lib".
    A synthetic library (uniques that are linear in their parameters, variants built from the inverse
    templates so that variant(x; p(theta)) == unique(x; theta)), closed-form WLS fit + analytic Hessian
    written as negloglike_comp / derivs_comp / codelen_comp_deriv files, then ONLY the match stage on P
    forked ranks; every row of codelen_matches_comp<n>.dat is compared with the oracle.
"""
import os, sys, re, math, json, random, shutil, itertools
import mpmath as mp

mp.mp.dps = 30
LN3 = math.log(3.0)


# ------------------------------------------------------------------------------ templates
class T:
    def __init__(self, name, text, fwd, inv, ok, okb=None, multi=None):
        self.name, self.text, self.fwd, self.inv, self.ok = name, text, fwd, inv, ok
        self.okb = okb or ok       # stricter domain when the inverse template is used to build a variant
        self.multi = multi         # permutation: list perm with new[i] = old[perm[i]]


LO, HI = 0.05, 60.0        # mode match widens this: fitted parameters may be tiny (those are the ones that snap)


def _away(t):
    return LO < abs(t) < HI


def _pos(t):
    return LO < t < HI


def _exp_ok(t):
    return abs(t) < 3.5


def _log_ok(t):
    return _pos(t) and abs(mp.log(t)) > 0.05


SINGLE = [
    T("ident", "{a%d: a%d}", lambda t: t, "(a%d)", lambda t: True),
    T("neg", "{a%d: -a%d}", lambda t: -t, "(-a%d)", _away),
    T("rec", "{a%d: 1/a%d}", lambda t: 1 / t, "(1/a%d)", _away),
    T("half", "{a%d: a%d/2}", lambda t: t / 2, "(2*a%d)", _away),
    T("dbl", "{a%d: 2*a%d}", lambda t: 2 * t, "(a%d/2)", _away),
    T("tri", "{a%d: 3*a%d}", lambda t: 3 * t, "(a%d/3)", _away),
    T("third", "{a%d: a%d/3}", lambda t: t / 3, "(3*a%d)", _away),
    T("quart", "{a%d: a%d/4}", lambda t: t / 4, "(4*a%d)", _away),
    T("nhalf", "{a%d: -a%d/2}", lambda t: -t / 2, "(-2*a%d)", _away),
    T("ndbl", "{a%d: -2*a%d}", lambda t: -2 * t, "(-a%d/2)", _away),
    T("sq", "{a%d: a%d**2}", lambda t: t * t, "sqrt(Abs(a%d))", _away, _pos),
    T("sqrt", "{a%d: sqrt(Abs(a%d))}", lambda t: mp.sqrt(abs(t)), "(a%d**2)", _away, _pos),
    T("rsqrt", "{a%d: 1/sqrt(Abs(a%d))}", lambda t: 1 / mp.sqrt(abs(t)), "(1/a%d**2)", _away, _pos),
    T("r4", "{a%d: Abs(a%d)**(-1/4)}", lambda t: abs(t) ** (-mp.mpf(1) / 4), "(1/a%d**4)", _away, _pos),
    T("log", "{a%d: log(Abs(a%d))}", lambda t: mp.log(abs(t)), "exp(a%d)", lambda t: _away(t) and abs(mp.log(abs(t))) > 0.05, _log_ok),
    T("exp", "{a%d: exp(a%d)}", lambda t: mp.exp(t), "log(a%d)", _exp_ok),
    T("cbrt", "{a%d: a%d**(1/3)}", lambda t: t ** (mp.mpf(1) / 3), "(a%d**3)", _pos),
    T("acbrt", "{a%d: Abs(a%d)**(1/3)}", lambda t: abs(t) ** (mp.mpf(1) / 3), "(a%d**3)", _away, _pos),
]
SINGLE_BY = {t.name: t for t in SINGLE}
PERMS = {
    "swap01": ("{a0: a1, a1: a0}", [1, 0, 2, 3]),
    "swap02": ("{a0: a2, a2: a0}", [2, 1, 0, 3]),
    "swap12": ("{a1: a2, a2: a1}", [0, 2, 1, 3]),
    "rot": ("{a0: a1, a1: a2, a2: a0}", [1, 2, 0, 3]),
}


def step_text(st):
    """st = [name, idx] or [permname, None] or ['nan', None]"""
    nm, i = st
    if nm == "nan":
        return "nan"
    if nm in PERMS:
        return PERMS[nm][0]
    return SINGLE_BY[nm].text % (i, i)


def apply_step(st, v, strict=False):
    """value of the substitution st at the point v (list); None if outside the template's domain"""
    nm, i = st
    v = list(v)
    if nm in PERMS:
        perm = PERMS[nm][1]
        if max(j for j in range(4) if perm[j] != j) >= len(v):
            return None
        return [v[perm[j]] for j in range(len(v))]
    t = SINGLE_BY[nm]
    if i >= len(v):
        return v                       # substitution of a symbol that does not occur: no-op
    if not (t.okb if strict else t.ok)(v[i]):
        return None
    v[i] = t.fwd(v[i])
    return v


def apply_chain(chain, theta, strict=False):
    """p(theta) for p = Array(a).subs(s1).subs(s2)... = s1(s2(...sm(theta)))"""
    v = [mp.mpf(t) for t in theta]
    for st in reversed(chain):
        v = apply_step(st, v, strict)
        if v is None:
            return None
        if any(not _away(t) for t in v):
            return None
    return v


def jacobian(chain, theta):
    k = len(theta)
    J = mp.matrix(k, k)
    for j in range(k):
        def f(t, j=j):
            th = [mp.mpf(x) for x in theta]
            th[j] = t
            return apply_chain_raw(chain, th)
        for i in range(k):
            J[i, j] = mp.diff(lambda t, i=i: f(t)[i], mp.mpf(theta[j]))
    return J


def apply_chain_raw(chain, v):
    v = list(v)
    for st in reversed(chain):
        nm, i = st
        if nm in PERMS:
            perm = PERMS[nm][1]
            v = [v[perm[j]] for j in range(len(v))]
        elif i < len(v):
            v[i] = SINGLE_BY[nm].fwd(v[i])
    return v


def chain_key(chain):
    return ";".join(step_text(s) for s in chain).replace(" ", "") or "identity"


def flat_fisher(F, k, n, pad):
    """upper triangle of the n x n matrix, row-major, as one row of derivs_comp<n>.dat"""
    out = []
    for i in range(n):
        for j in range(i, n):
            out.append(F[i][j] if (i < k and j < k) else pad)
    return out


def rand_spd(rng, k):
    A = [[rng.uniform(-1, 1) for _ in range(k)] for _ in range(k)]
    scale = [10 ** rng.uniform(-1, 3) for _ in range(k)]
    F = [[sum(A[i][m] * A[j][m] for m in range(k)) + (0.3 if i == j else 0.0) for j in range(k)] for i in range(k)]
    return [[F[i][j] * scale[i] * scale[j] for j in range(k)] for i in range(k)]


# ------------------------------------------------------------------------------ mode convert
def steps_for(k):
    s = [[t.name, i] for t in SINGLE for i in range(k) if not (t.name == "ident" and i > 0)]
    if k >= 2:
        s.append(["swap01", None])
    if k >= 3:
        s += [["swap02", None], ["swap12", None], ["rot", None]]
    return s


def gen_convert_cases(seed, count3):
    rng = random.Random(5100 + seed)
    chains = []
    for k in (1, 2, 3):
        S = steps_for(k)
        chains.append((k, []))
        for a in S:
            chains.append((k, [a]))
        if k == 1:
            for a in S:
                for b in S:
                    chains.append((k, [a, b]))
        else:
            for _ in range(count3):
                chains.append((k, [rng.choice(S), rng.choice(S)]))
        for _ in range(count3):
            chains.append((k, [rng.choice(S), rng.choice(S), rng.choice(S)]))
        # a substitution of a symbol the function does not have (no-op) and unrecoverable chains
        if k < 3:
            chains.append((k, [["neg", k]]))
        for _ in range(max(4, count3 // 10)):
            c = [rng.choice(S) for _ in range(rng.randint(0, 2))]
            c.insert(rng.randint(0, len(c)), ["nan", None])
            chains.append((k, c))
    cases = []
    for ci, (k, chain) in enumerate(chains):
        n = 4 if rng.random() < 0.8 else 5
        pad = "nan" if rng.random() < 0.8 else "zero"
        theta = None
        has_nan = any(s[0] == "nan" for s in chain)
        for _ in range(200):
            th = [rng.choice([-1, 1]) * round(10 ** rng.uniform(-0.7, 0.9), 6) for _ in range(k)]
            if has_nan:
                theta = th
                break
            v = apply_chain(chain, th)
            if v is None:
                continue
            J = jacobian(chain, th)
            if all(1e-3 < abs(J[i, j]) < 1e3 or J[i, j] == 0 for i in range(k) for j in range(k)) and abs(mp.det(J)) > 1e-6:
                theta = th
                break
        if theta is None:
            continue
        cases.append({"id": ci, "k": k, "n": n, "pad": pad, "chain": chain, "theta": theta, "F": rand_spd(rng, k)})
    return cases


def mode_convert(p):
    import numpy as np
    import sympy
    from hcommon import quiet
    work = os.environ["ESRV_WORK"]
    if "cases" in p:
        cases = p["cases"]
    else:
        cases = gen_convert_cases(p["seed"], p["count3"])
        cases = cases[p.get("chunk", 0)::p.get("nchunks", 1)]
    import esr.generation.simplifier as simplifier
    fails, ncase, distinct = [], 0, 0
    # the chains go through the real reader, file by file per n (max_param of the reader)
    for n in (4, 5):
        cs = [c for c in cases if c["n"] == n]
        if not cs:
            continue
        fn = os.path.join(work, "inv_subs_%d.txt" % n)
        with open(fn, "w") as f:
            for c in cs:
                f.write(";".join(step_text(s) for s in c["chain"]) + "\n")
        with quiet():
            subs = simplifier.load_subs(fn, n)
        if len(subs) != len(cs):
            raise RuntimeError("load_subs returned %d rows for %d lines" % (len(subs), len(cs)))
        for c, sub in zip(cs, subs):
            ncase += 1
            k, chain = c["k"], c["chain"]
            key = "c05:convert:k=%d:%s" % (k, chain_key(chain))
            padv = float("nan") if c["pad"] == "nan" else 0.0
            fish = np.array(flat_fisher(c["F"], k, n, padv), dtype=float)
            pm = np.array(c["theta"], dtype=float)
            has_nan = any(s[0] == "nan" for s in chain)
            try:
                with quiet():
                    pn, df = simplifier.convert_params(pm.copy(), fish.copy(), sub, n=n)
                pn = np.atleast_1d(np.array(pn, dtype=float)).ravel()
                df = np.atleast_1d(np.array(df, dtype=float)).ravel()
            except Exception as e:
                if has_nan:
                    fails.append(dict(c, key=key, cls="exception", error="convert_params raised %s: %s on a chain marked unrecoverable (%s)" % (
                        type(e).__name__, str(e)[:200], chain_key(chain))))
                else:
                    fails.append(dict(c, key=key, cls="exception", error="convert_params raised %s: %s for the regular map %s at theta=%s" % (
                        type(e).__name__, str(e)[:300], chain_key(chain), c["theta"])))
                continue
            if has_nan:
                if not (len(pn) == k and len(df) == k and all(np.isnan(pn)) and all(np.isnan(df))):
                    fails.append(dict(c, key=key, cls="nan-chain", error="chain %s contains an unrecoverable step but convert_params returned %s, %s (all-NaN expected)" % (
                        chain_key(chain), pn.tolist(), df.tolist())))
                continue
            if len(chain) > 0:
                distinct += 1
            want_p = apply_chain_raw(chain, [mp.mpf(t) for t in c["theta"]])
            # machinery self-check: our composition order is the one of Array.subs in sequence
            a = sympy.symbols(" ".join("a%d" % i for i in range(n)), real=True)
            arr = sympy.Array(a[:k])
            for s in sub:
                arr = arr.subs(s, simultaneous=True)
            chk = [mp.mpf(str(sympy.N(e.subs({a[i]: sympy.Float(repr(c["theta"][i]), 40) for i in range(k)}), 30))) for e in arr]
            # (the maps substituted here are the ones the real load_subs returned: a disagreement is a defect of this harness only if the real
            #  convert_params nevertheless agrees with the oracle; otherwise the real reader / converter is what is wrong and it is reported below)
            selfcheck_bad = any(abs(chk[i] - want_p[i]) > mp.mpf(10) ** -12 * max(1, abs(want_p[i])) for i in range(k))
            J = jacobian(chain, c["theta"])
            Ji = J ** -1
            F = mp.matrix(c["F"])
            Fn = Ji.T * F * Ji
            want_f = [Fn[i, i] for i in range(k)]
            bad = []
            for i in range(k):
                if not (abs(pn[i] - float(want_p[i])) <= 1e-8 * max(1e-300, abs(float(want_p[i])))):
                    bad.append("parameter a%d = %r, map gives %r" % (i, float(pn[i]), float(want_p[i])))
                if not (abs(df[i] - float(want_f[i])) <= 1e-8 * abs(float(want_f[i]))):
                    bad.append("Fisher diagonal %d = %r, J^-T F J^-1 gives %r" % (i, float(df[i]), float(want_f[i])))
            if len(pn) != k or len(df) != k:
                bad.append("result lengths %d, %d for %d parameters" % (len(pn), len(df), k))
            if selfcheck_bad and not bad:
                raise RuntimeError("oracle composition disagrees with sequential subs for %s: %s vs %s" % (chain_key(chain), chk, want_p))
            if bad:
                fails.append(dict(c, key=key, cls="value", error="convert_params with chain %s at theta=%s (n=%d, padding %s): %s" % (
                    chain_key(chain), c["theta"], n, c["pad"], "; ".join(bad[:4]))))
    return {"cases": ncase, "distinct": distinct, "failures": fails[:30], "nfail": len(fails)}


# ------------------------------------------------------------------------------ mode match
def _lam(src):
    return eval("lambda x: " + src, {"__builtins__": {}}, {})


UNIQUES = [
    # text, basis functions g_k(x) (python source in x), offset h(x)
    ("a0*x", ["x"], "0.0"),
    ("a0 + x", ["1.0"], "x"),
    ("a0/x", ["1.0/x"], "0.0"),
    ("a0", ["1.0"], "0.0"),
    ("a0*x**2", ["x**2"], "0.0"),
    ("a0*x + a1", ["x", "1.0"], "0.0"),
    ("a0 + a1/x", ["1.0", "1.0/x"], "0.0"),
    ("a0*x**2 + a1*x", ["x**2", "x"], "0.0"),
    ("a0*x + a1/x + x**2", ["x", "1.0/x"], "x**2"),
    ("a0*x**2 + a1*x + a2", ["x**2", "x", "1.0"], "0.0"),
    ("a0 + a1*x + a2/x", ["1.0", "x", "1.0/x"], "0.0"),
    ("x", [], "x"),
    ("x**2", [], "x**2"),
    ("1/x", [], "1.0/x"),
]


def solve_spd(A, b):
    A = mp.matrix(A)
    return [float(v) for v in mp.lu_solve(A, mp.matrix(b))]


def datasets(seed, which):
    rng = random.Random(5200 + 17 * seed + which)
    N = rng.choice([12, 20, 31])
    x = sorted(round(rng.uniform(0.4, 3.2), 4) for _ in range(N))
    kind = which % 4
    sig = [round(rng.choice([0.05, 0.1, 0.3]) * rng.uniform(0.7, 1.4), 4) for _ in range(N)]
    if kind == 0:      # a line through (almost) the origin: intercepts snap to zero
        f = lambda t: 1.7 * t + 0.004
    elif kind == 1:    # a constant: slopes snap
        f = lambda t: 2.5 + 0.0 * t
    elif kind == 2:    # a parabola with a tiny linear term
        f = lambda t: 0.8 * t * t + 0.003 * t + 1.1
    else:
        f = lambda t: 1.2 / t + 0.6 * t
    y = [round(f(t) + s * rng.gauss(0, 1), 6) for t, s in zip(x, sig)]
    return x, y, sig


def gauss_nll(pred, y, sig):
    tot = 0.0
    for f, yy, s in zip(pred, y, sig):
        tot += 0.5 * (f - yy) ** 2 / s ** 2 + 0.5 * math.log(2 * math.pi) + math.log(s)
    return tot


def sub_text(expr, fn):
    """replace every a<i> token simultaneously by fn(i)"""
    return re.sub(r"a(\d)", lambda m: fn(int(m.group(1))), expr)


def variant_text(utext, chain):
    """variant(x; q) = unique(x; sm^-1(...s1^-1(q)))"""
    expr = utext
    for st in reversed(chain):
        nm, i = st
        if nm in PERMS:
            perm = PERMS[nm][1]
            inv = [perm.index(j) for j in range(4)]
            # new_p[j] = old[perm[j]]  =>  old[m] = new_p[inv[m]]
            expr = sub_text(expr, lambda m, inv=inv: "a%d" % inv[m])
        else:
            t = SINGLE_BY[nm]
            expr = sub_text(expr, lambda m, i=i, t=t: (t.inv % m) if m == i else "a%d" % m)
    return expr


def py_eval_variant(vtext, xs, p):
    """independent evaluation of the variant string (python arithmetic; None if undefined)"""
    env = {"sqrt": math.sqrt, "Abs": abs, "exp": math.exp, "log": lambda t: math.log(abs(t))}
    for i, v in enumerate(p):
        env["a%d" % i] = v
    out = []
    try:
        for xv in xs:
            env["x"] = xv
            val = eval(vtext, {"__builtins__": {}}, env)
            if isinstance(val, complex) or val != val or abs(val) == float("inf"):
                return None
            out.append(val)
    except (ZeroDivisionError, ValueError, OverflowError):
        return None
    return out


def removable_singularity(vtext, xs, p):
    """True if the variant text cannot be evaluated with some parameters at exactly zero although it has a
    moderate limit there (e.g. '1/(1/a0)'): whether the pipeline sees a singularity then depends on how
    sympy rewrites the text, so such variants are left out of the synthetic library."""
    k = len(p)
    for m in range(1, 2 ** k):
        idx = [i for i in range(k) if m >> i & 1]
        p0 = [0.0 if i in idx else p[i] for i in range(k)]
        if py_eval_variant(vtext, xs, p0) is not None:
            continue
        for eps in (1e-30, 1e-12, 1e-6, 1e-3):          # (a tiny probe can overflow in an intermediate power although the limit is moderate)
            pe = [eps if i in idx else p[i] for i in range(k)]
            v = py_eval_variant(vtext, xs, pe)
            if v is not None and all(abs(t) < 1e8 for t in v):
                return True
        # numpy's extended arithmetic (1/0 = inf, 1/inf = 0) is what the pipeline's lambdified functions use: finite there = not a singularity for it
        try:
            import numpy as _np
            env = {"sqrt": _np.sqrt, "Abs": _np.abs, "exp": _np.exp, "log": lambda t: _np.log(_np.abs(t)), "x": _np.asarray(xs, float)}
            for i, v_ in enumerate(p0):
                env["a%d" % i] = _np.float64(v_)
            with _np.errstate(all="ignore"):
                val = _np.broadcast_to(_np.asarray(eval(vtext, {"__builtins__": {}}, env), dtype=complex), (len(xs),))
            if _np.all(_np.isfinite(val)):
                return True
        except Exception:
            pass
    return False


def build_lib(seed, which, comp):
    global LO, HI
    LO, HI = 1e-7, 1e7
    rng = random.Random(5300 + 31 * seed + which)
    x, y, sig = datasets(seed, which)
    M = max(4, (comp - 1) // 2)
    w = [1.0 / s ** 2 for s in sig]
    uniq, funcs = [], []
    for ui, (utext, gs, h) in enumerate(UNIQUES):
        k = len(gs)
        G = [[_lam(g)(t) for g in gs] for t in x]
        hv = [_lam(h)(t) for t in x]
        if k:
            A = [[sum(w[m] * G[m][i] * G[m][j] for m in range(len(x))) for j in range(k)] for i in range(k)]
            b = [sum(w[m] * G[m][i] * (y[m] - hv[m]) for m in range(len(x))) for i in range(k)]
            theta = solve_spd(A, b)
        else:
            A, theta = [], []
        # what the fit / Fisher stages would leave in their files (8 significant digits)
        theta_t = ["%.7e" % t for t in theta] + ["%.7e" % 0.0] * (M - k)
        theta_r = [float(t) for t in theta_t[:k]]
        pred = [sum(theta_r[i] * G[m][i] for i in range(k)) + hv[m] for m in range(len(x))]
        nll_t = "%.7e" % gauss_nll(pred, y, sig)
        Ft = [["%.7e" % A[i][j] for j in range(k)] for i in range(k)]
        uniq.append({"text": utext, "k": k, "theta_t": theta_t, "nll_t": nll_t, "F_t": Ft, "kind": "fit"})
    # two uniques without a usable fit
    uniq.append({"text": "a0/(x - x)", "k": 1, "theta_t": ["%.7e" % 0.0] * M, "nll_t": "inf", "F_t": [["nan"]], "kind": "nll-inf"})
    uniq.append({"text": "a0*x**3", "k": 1, "theta_t": ["%.7e" % 1.5] + ["%.7e" % 0.0] * (M - 1), "nll_t": "%.7e" % 321.5,
                 "F_t": [["nan"]], "kind": "fisher-nan"})
    for ui, u in enumerate(uniq):
        k = u["k"]
        funcs.append({"text": u["text"], "u": ui, "chain": []})
        if k == 0 or u["kind"] != "fit":
            if u["kind"] != "fit":
                funcs.append({"text": "(-a0)" + u["text"][2:], "u": ui, "chain": [["neg", 0]]})
                funcs.append({"text": "a0*a1" + u["text"][2:], "u": ui, "chain": [["nan", None]]})
            continue
        theta = [float(t) for t in u["theta_t"][:k]]
        S = steps_for(k)
        chains = [[s] for s in S]
        for L in (2, 3):
            for _ in range(6 if k == 1 else 10):
                chains.append([rng.choice(S) for _ in range(L)])
        seen = set()
        for ch in chains:
            ck = chain_key(ch)
            if ck in seen:
                continue
            seen.add(ck)
            pv = apply_chain(ch, theta, strict=True)
            if pv is None:
                continue
            vt = variant_text(u["text"], ch)
            if removable_singularity(vt, x, [float(v) for v in pv]):
                continue
            funcs.append({"text": vt, "u": ui, "chain": ch})
        # unrecoverable: the variant has one more parameter than the unique
        if k < 3:
            extra = "a%d" % k
            funcs.append({"text": "%s*(%s)" % (extra, u["text"]), "u": ui, "chain": [["nan", None]]})
            funcs.append({"text": "(%s)/%s" % (u["text"], extra), "u": ui, "chain": [["rec", k], ["nan", None]]})
            funcs.append({"text": "(%s) + %s - %s" % (sub_text(u["text"], lambda m: "(1/a%d)" % m if m == 0 else "a%d" % m), extra, extra),
                          "u": ui, "chain": [["nan", None], ["rec", 0]]})
    order = list(range(len(funcs)))
    rng.shuffle(order)
    funcs = [funcs[i] for i in order]
    return {"comp": comp, "x": x, "y": y, "sig": sig, "uniques": uniq, "funcs": funcs}


def expected_row(lib, fi):
    """oracle for row fi of codelen_matches: dict(index, nll, codelen ('finite', value) / 'nonfinite' / None, params)"""
    f = lib["funcs"][fi]
    u = lib["uniques"][f["u"]]
    M = max(4, (lib["comp"] - 1) // 2)
    k = u["k"]
    nll_u = float(u["nll_t"])
    exp = {"index": f["u"], "nll": nll_u, "codelen": None, "params": None, "why": ""}
    has_nan = any(s[0] == "nan" for s in f["chain"])
    if not math.isfinite(nll_u):
        exp["codelen"] = "nonfinite"
        exp["why"] = "the unique function has no finite likelihood"
        return exp
    if has_nan:
        exp["codelen"] = "nonfinite"
        exp["why"] = "the transformation is unrecoverable"
        return exp
    if u["kind"] != "fit":
        exp["why"] = "unique function without a Fisher matrix: nothing is asked of the code length"
        return exp
    if k == 0:
        exp["codelen"] = ("value", 0.0)
        exp["params"] = [0.0] * M
        return exp
    theta = [float(t) for t in u["theta_t"][:k]]
    F = mp.matrix([[float(v) for v in row] for row in u["F_t"]])
    p = [float(v) for v in apply_chain_raw(f["chain"], [mp.mpf(t) for t in theta])]
    J = jacobian(f["chain"], theta)
    Ji = J ** -1
    Fn = Ji.T * F * Ji
    fd = [float(Fn[i, i]) for i in range(k)]
    nsteps = [abs(p[i]) * math.sqrt(fd[i] / 12.0) for i in range(k)]
    exp["nsteps"] = nsteps
    if any(abs(ns - 1.0) < 0.02 for ns in nsteps):
        exp["why"] = "too close to the snapping threshold to decide"
        exp["codelen"] = "finite"
        exp["nll"] = None
        return exp
    snap = [i for i in range(k) if nsteps[i] < 1]
    full = lambda idx: -len(idx) / 2.0 * LN3 + sum(0.5 * math.log(fd[i]) + math.log(abs(p[i])) for i in idx)
    if not snap:
        exp["codelen"] = ("value", full(range(k)))
        exp["params"] = p + [0.0] * (M - k)
        return exp
    p0 = [0.0 if i in snap else p[i] for i in range(k)]
    pred = py_eval_variant(f["text"], lib["x"], p0)
    if pred is not None:
        kept = [i for i in range(k) if i not in snap]
        exp["nll"] = gauss_nll(pred, lib["y"], lib["sig"])
        exp["codelen"] = ("value", full(kept) if kept else 0.0)
        exp["params"] = p0 + [0.0] * (M - k)
        exp["why"] = "parameters %s snap to zero" % snap
        return exp
    # the variant is singular at zero
    if len(snap) == 1:
        fd2 = list(fd)
        for i in snap:
            fd2[i] = 12.0 / p[i] ** 2
        exp["codelen"] = ("value", -k / 2.0 * LN3 + sum(0.5 * math.log(fd2[i]) + math.log(abs(p[i])) for i in range(k)))
        exp["params"] = p + [0.0] * (M - k)
        exp["why"] = "parameter %s would snap to zero but the variant is singular there" % snap
        return exp
    exp["codelen"] = "finite"
    exp["nll"] = None
    exp["why"] = "several parameters would snap and the variant is singular at zero: only finiteness is checked"
    return exp


def close(a, b, rel, ab=0.0):
    if a != a or b != b:
        return a != a and b != b
    if abs(a) == float("inf") or abs(b) == float("inf"):
        return a == b
    return abs(a - b) <= rel * max(abs(a), abs(b)) + ab


def mode_match(p):
    import numpy, sympy, scipy.integrate, pandas, astropy.constants, astropy.units, prettytable, numdifftools  # noqa (before the forks)
    import stages
    work = os.environ["ESRV_WORK"]
    comp = p.get("comp", 5)
    lib = p.get("lib") or build_lib(p["seed"], p["dataset"], comp)
    P = p["P"]
    M = max(4, (comp - 1) // 2)
    name = "c05_%s" % p.get("tag", "%d_%d" % (p.get("seed", 0), p.get("dataset", 0)))
    d = stages.lib_dir(name, comp)
    shutil.rmtree(stages.lib_dir(name), ignore_errors=True)
    os.makedirs(d)
    U, Fs = lib["uniques"], lib["funcs"]
    only = p.get("only")          # replay: restrict the library to some function rows (and their uniques stay)
    if only is not None:
        Fs = [Fs[i] for i in only]
        lib = dict(lib, funcs=Fs)
    # machinery self-check: variant(x; p(theta)) == unique(x; theta)
    for f in Fs:
        u = U[f["u"]]
        if u["kind"] != "fit" or any(s[0] == "nan" for s in f["chain"]) or u["k"] == 0:
            continue
        theta = [float(t) for t in u["theta_t"][:u["k"]]]
        pv = [float(v) for v in apply_chain_raw(f["chain"], [mp.mpf(t) for t in theta])]
        a = py_eval_variant(f["text"], lib["x"], pv)
        b = py_eval_variant(u["text"], lib["x"], theta)
        if a is None or b is None or any(abs(s - t) > 1e-9 * max(1, abs(t)) for s, t in zip(a, b)):
            raise RuntimeError("synthetic library is wrong: %r with %s is not %r" % (f["text"], chain_key(f["chain"]), u["text"]))
    with open(os.path.join(d, "unique_equations_%d.txt" % comp), "w") as f:
        f.write("".join(u["text"] + "\n" for u in U))
    with open(os.path.join(d, "all_equations_%d.txt" % comp), "w") as f:
        f.write("".join(fn["text"] + "\n" for fn in Fs))
    with open(os.path.join(d, "matches_%d.txt" % comp), "w") as f:
        f.write("".join("%.18e\n" % fn["u"] for fn in Fs))
    with open(os.path.join(d, "inv_subs_%d.txt" % comp), "w") as f:
        f.write("".join(";".join(step_text(s) for s in fn["chain"]) + "\n" for fn in Fs))
    with open(os.path.join(d, "aifeyn_%d.txt" % comp), "w") as f:
        f.write("".join("%r\n" % (comp * math.log(3)) for fn in Fs))
    dd = os.path.join(work, "data")
    shutil.rmtree(dd, ignore_errors=True)
    os.makedirs(dd)
    with open(os.path.join(dd, "d.dat"), "w") as f:
        for a, b, c in zip(lib["x"], lib["y"], lib["sig"]):
            f.write("%r %r %r\n" % (a, b, c))
    od = stages.out_dir(dd, "run")
    os.makedirs(od)
    os.makedirs(os.path.join(dd, "fitting", "output", "partial_run"))
    nd = M * (M + 1) // 2
    with open(os.path.join(od, "negloglike_comp%d.dat" % comp), "w") as f:
        for u in U:
            f.write(" ".join([u["nll_t"]] + u["theta_t"]) + "\n")
    with open(os.path.join(od, "derivs_comp%d.dat" % comp), "w") as f:
        for u in U:
            k = u["k"]
            row = []
            for i in range(M):
                for j in range(i, M):
                    row.append(u["F_t"][i][j] if (u["kind"] == "fit" and i < k and j < k) else "nan")
            assert len(row) == nd
            f.write(" ".join(row) + "\n")
    with open(os.path.join(od, "codelen_comp%d_deriv.dat" % comp), "w") as f:
        for u in U:
            f.write(" ".join(["%.7e" % 0.0, u["nll_t"]] + u["theta_t"]) + "\n")
    res = stages.run_stage("match", comp, "GaussLikelihood", "d.dat", "run", dd, name, P=P, timeout=p.get("stage_timeout", 300))
    ss, errs = stages.statuses(res)
    out = {"cases": len(Fs), "distinct": 0, "failures": [], "machinery": [], "P": P, "n_unique": len(U)}
    shutil.rmtree(stages.lib_dir(name), ignore_errors=True)
    if any(s == "timeout" for s in ss) and not errs:
        out["machinery"].append("match stage on %d ranks: statuses %s" % (P, ss))
        return out
    base = {"seed": p.get("seed"), "dataset": p.get("dataset"), "P": P, "comp": comp}
    if any(s != "ok" for s in ss):
        out["failures"].append(dict(base, key="c05:match:stage-failed:P=%d" % P, row=None,
                                    error="match.main did not complete on %d rank(s) (statuses %s): %s" % (P, ss, (errs or ["?"])[0][-700:])))
        return out
    fp = os.path.join(od, "codelen_matches_comp%d.dat" % comp)
    rows = [l.split() for l in open(fp).read().splitlines() if l.strip()] if os.path.exists(fp) else None
    if rows is None or len(rows) != len(Fs):
        out["failures"].append(dict(base, key="c05:match:rows:P=%d" % P, row=None,
                                    error="codelen_matches_comp%d.dat has %s rows for %d functions" % (comp, None if rows is None else len(rows), len(Fs))))
        return out
    nfin = 0
    for i, (fn, r) in enumerate(zip(Fs, rows)):
        u = U[fn["u"]]
        e = expected_row(lib, i)
        got = [float(v) for v in r]
        bad = []
        if len(got) != 3 + M:
            bad.append("row has %d columns, expected %d" % (len(got), 3 + M))
        else:
            nll, cl, idx, par = got[0], got[1], got[2], got[3:]
            if idx != e["index"]:
                bad.append("index column %r, function %d belongs to unique %d" % (idx, i, e["index"]))
            if e["nll"] is not None and not close(nll, e["nll"], 2e-6, 1e-6):
                bad.append("negative log-likelihood %r, expected %r (%s)" % (nll, e["nll"], e["why"] or "the unique function's value"))
            c = e["codelen"]
            if c == "nonfinite" and math.isfinite(cl):
                bad.append("finite code length %r although %s" % (cl, e["why"]))
            elif c == "finite" and not math.isfinite(cl):
                bad.append("code length %r, must be finite (unique function's Fisher matrix is positive definite, the map is regular)" % cl)
            elif isinstance(c, (tuple, list)):
                if not math.isfinite(cl):
                    bad.append("code length %r, must be finite: expected %.7g (Fisher matrix of the unique function positive definite, map %s regular at theta)" % (
                        cl, c[1], chain_key(fn["chain"])))
                elif not close(cl, c[1], 1e-5, 1e-5):
                    bad.append("code length %r, expected %r from the Jacobian-transformed Fisher matrix (%s)" % (cl, c[1], e["why"] or "no parameter snaps"))
                nfin += 1
            if e["params"] is not None:
                for j in range(M):
                    if not close(par[j], e["params"][j], 2e-6, 1e-9):
                        bad.append("parameter a%d = %r, expected %r (map %s applied to theta=%s; %s)" % (
                            j, par[j], e["params"][j], chain_key(fn["chain"]), u["theta_t"][:u["k"]], e["why"] or "no parameter snaps"))
                        break
        if bad:
            out["failures"].append(dict(base, key="c05:match:%s:%s:%s" % (u["text"].replace(" ", ""), chain_key(fn["chain"]), fn["text"].replace(" ", "")),
                                        row=i, function=fn["text"], unique=u["text"], chain=chain_key(fn["chain"]), got=r,
                                        nsteps=e.get("nsteps"),
                                        error="function %r (row %d) of unique %r with recorded map %s: %s" % (
                                            fn["text"], i, u["text"], chain_key(fn["chain"]), "; ".join(bad[:3]))))
    out["distinct"] = nfin
    out["nfail"] = len(out["failures"])
    out["failures"] = out["failures"][:30]
    out["n_nonempty_chain"] = sum(1 for fn in Fs if fn["chain"])
    out["n_snap"] = sum(1 for i in range(len(Fs)) if "snap" in (expected_row(lib, i)["why"] or ""))
    return out


def main(p):
    return {"convert": mode_convert, "match": mode_match}[p["mode"]](p)


if __name__ == "__main__":
    from hcommon import io_main
    io_main(main)
