"""Bounded stand-ins on generated libraries (real generation code on the scratch copy).

modes: c01 (enumeration), c02 (string denotes tree), c03 (library soundness), c13 (rank count),
       shapes (get_allowed_shapes vs Łukasiewicz enumeration)
"""
import os, sys, re, json, time, hashlib, collections
import numpy as np
from hcommon import io_main, quiet, short_err
import stages, oracle
import mpmath as mp

RUNS = {
    "keep_duplicates": [["x", "a"], ["square", "exp", "inv", "sqrt_abs", "log_abs"], ["+", "*", "-", "/", "pow"]],
    "core_maths": [["x", "a"], ["inv"], ["+", "*", "-", "/", "pow"]],
    "ext_maths": [["x", "a"], ["inv", "sqrt_abs", "square", "exp"], ["+", "*", "-", "/", "pow"]],
    "osc_maths": [["x", "a"], ["inv", "sin"], ["+", "*", "-", "/", "pow"]],
    "base10_maths": [["x", "a"], ["tenexp", "inv", "log10_abs"], ["+", "*", "-", "/", "pow"]],
    "base_e_maths": [["x", "a"], ["inv", "exp", "log_abs"], ["+", "*", "-", "/", "pow"]],
}


def basis_of(runname, basis):
    return basis if basis is not None else RUNS[runname]


def ensure_lib(runname, n, basis=None, P=1):
    d = stages.lib_dir(runname, n)
    if os.path.exists(os.path.join(d, "inv_subs_%d.txt" % n)):
        return None
    r = stages.generate(runname, n, P=P, basis=basis)
    ss, errs = stages.statuses(r)
    if any(s != "ok" for s in ss):
        return "generation of %s complexity %d did not complete on ranks %s: %s" % (
            runname, n, [i for i, s in enumerate(ss) if s != "ok"], (errs or ["timeout"])[0][-600:])
    return None


# ------------------------------------------------------------------------------------ C01
def shapes_check(p):
    import esr.generation.generator as g
    fails, cases = [], 0
    for n in range(1, p["nmax"] + 1):
        with quiet():
            got = g.get_allowed_shapes(n)
        got = [tuple(int(v) for v in row) for row in np.atleast_2d(got)] if len(got) else []
        want = oracle.valid_shapes(n)
        cases += 1
        if sorted(got) != sorted(want) or len(set(got)) != len(got):
            fails.append({"n": n, "missing": [list(s) for s in sorted(set(want) - set(got))[:3]],
                          "extra": [list(s) for s in sorted(set(got) - set(want))[:3]], "dups": len(got) - len(set(got))})
    # check_tree as a decision procedure on arbitrary arity strings
    nct = 0
    for n in range(1, p.get("ct_nmax", 7) + 1):
        import itertools
        valid = set(oracle.valid_shapes(n))
        for s in itertools.product((0, 1, 2), repeat=n):
            if n > 1 and s[0] == 0:
                continue
            nct += 1
            ok, part, tree = g.check_tree(np.array(s))
            if bool(ok) != (s in valid):
                if len(fails) < 5:
                    fails.append({"check_tree": list(s), "got": bool(ok), "want": s in valid})
            elif ok and n > 1:
                # pointer structure is the prefix parse
                for i, t in enumerate(tree):
                    if t.type >= 1 and t.left != i + 1:
                        fails.append({"check_tree": list(s), "node": i, "left": t.left})
                        break
    return {"cases": cases + nct, "distinct": cases + nct, "failures": fails[:5], "shapes_checked_up_to": p["nmax"]}


def c01(p):
    fails, cases, distinct = [], 0, 0
    jobs = []
    for job in p["jobs"]:
        jobs.append(job)
        if job.get("repeat"):
            jobs.append(dict(job, regenerate=True))     # a second generation into the directory the first one filled
    for job in jobs:
        runname, n, basis = job["runname"], job["n"], job.get("basis")
        b = basis_of(runname, basis)
        if job.get("regenerate"):
            r = stages.generate(runname, n, P=1, basis=basis)
            ss, errs = stages.statuses(r)
            err = None if all(s_ == "ok" for s_ in ss) else "second generation into the same directory did not complete: %s" % short_err((errs or ["timeout"])[0], 500)
        else:
            err = ensure_lib(runname, n, basis)
        cases += 1
        if err:
            fails.append({"job": job, "error": err})
            continue
        lib = stages.load_library(runname, n)
        got = [tuple(oracle.parse_tree_line(l)) for l in lib["orig_trees"]]
        want = [tuple(lab) for s, lab in oracle.enumerate_trees(n, b)]
        distinct += len(want)
        cg, cw = collections.Counter(got), collections.Counter(want)
        if cg != cw:
            miss = list((cw - cg).elements())[:3]
            extra = list((cg - cw).elements())[:3]
            fails.append({"job": job, "error": "orig_trees_%d.txt has %d trees, the basis has %d; missing %s; unexpected/duplicated %s" % (
                n, len(got), len(want), [list(m) for m in miss], [list(e) for e in extra])})
            continue
        ntrees = len(lib["trees"])
        for nm in ("all_equations", "aifeyn", "matches", "inv_subs"):
            if lib[nm] is None or len(lib[nm]) != ntrees:
                fails.append({"job": job, "error": "%s_%d.txt has %s lines, trees_%d.txt has %d" % (
                    nm, n, None if lib[nm] is None else len(lib[nm]), n, ntrees)})
        if lib["trees"][:len(got)] != lib["orig_trees"]:
            fails.append({"job": job, "error": "trees file does not start with the original trees"})
    return {"cases": cases, "distinct": distinct, "failures": fails[:5]}


# ------------------------------------------------------------------------------------ C02
def gen_locals(max_param):
    import sympy
    from esr.fitting.sympy_symbols import sympy_locs
    locs = dict(sympy_locs)
    for i in range(max(max_param, 1)):
        locs["a%d" % i] = sympy.Symbol("a%d" % i, real=True)
    return locs


def c02(p):
    import sympy
    import esr.fitting.likelihood as L
    fails, cases, distinct, undefined_all = [], 0, 0, 0
    lik = L.Likelihood.__new__(L.Likelihood)
    for job in p["jobs"]:
        runname, n, basis = job["runname"], job["n"], job.get("basis")
        b = basis_of(runname, basis)
        err = ensure_lib(runname, n, basis)
        if err:
            fails.append({"job": job, "error": err})
            continue
        lib = stages.load_library(runname, n)
        trees, eqs = lib["trees"], lib["all_equations"]
        if len(trees) != len(eqs):
            fails.append({"job": job, "error": "trees (%d lines) and all_equations (%d lines) differ in length" % (len(trees), len(eqs))})
            continue
        locs = gen_locals(6)
        idxs = range(len(trees))
        if job.get("sample") and len(trees) > job["sample"]:
            import random
            idxs = sorted(random.Random(p.get("seed", 0)).sample(range(len(trees)), job["sample"]))
        for i in idxs:
            labels = oracle.parse_tree_line(trees[i])
            cases += 1
            if not oracle.well_formed(labels, b):
                fails.append({"job": job, "line": i, "error": "tree %s is not a well-formed prefix tree" % labels})
                continue
            try:
                e_gen = sympy.sympify(eqs[i], locals=locs)
            except Exception as e:
                fails.append({"job": job, "line": i, "error": "generation-stage parse of %r failed: %s" % (eqs[i], e)})
                continue
            try:
                _, e_fit, _ = lik.run_sympify(eqs[i] + "\n")
            except Exception as e:
                fails.append({"job": job, "line": i, "error": "fitting-stage parse of %r failed: %s" % (eqs[i], e)})
                continue
            ndef = 0
            bad = None
            for (x, par) in oracle.POINTS:
                tv = oracle.tree_eval(labels, x, par, b)
                if tv is None:
                    continue
                ndef += 1
                for nm, ex in (("generation", e_gen), ("fitting", e_fit)):
                    sv = oracle.sym_eval(ex, x, par)
                    if sv is None or not oracle.close(tv, sv, mp.mpf(10) ** -9):
                        bad = {"job": job, "line": i, "tree": labels, "string": eqs[i], "reader": nm, "x": x, "params": par,
                               "tree_value": str(tv), "string_value": str(sv)}
                        break
                if bad:
                    break
            if ndef == 0:
                undefined_all += 1
            else:
                distinct += 1
            if bad and len(fails) < 8:
                bad["error"] = "string on line %d does not evaluate like its tree (%s reader): %s vs tree %s" % (
                    i, bad["reader"], bad["string_value"], bad["tree_value"])
                fails.append(bad)
    return {"cases": cases, "distinct": distinct, "undefined_everywhere": undefined_all, "failures": fails[:5]}


# ------------------------------------------------------------------------------------ C03
def count_params(s, maxp=10):
    k = 0
    for j in range(maxp - 1, -1, -1):
        if re.search(r"a%d(?!\d)" % j, s):
            k = j + 1
            break
    return k


def load_chain(row, locs):
    """Parse one csv row of inv_subs the way load_subs does it (independent re-implementation:
    split 'key: value' pairs of each '{...}' entry)."""
    import sympy
    chain = []
    for ent in row:
        ent = ent.strip()
        if ent == "nan":
            chain.append(None)
            continue
        assert ent[0] == "{" and ent[-1] == "}", ent
        d = {}
        body = ent[1:-1]
        # split on top-level ', ' that precedes 'expr: '
        parts = re.split(r", (?=[^,{}]*?: )", body)
        for part in parts:
            k, v = part.split(": ", 1)
            d[sympy.sympify(k, locals=locs)] = sympy.sympify(v, locals=locs)
        chain.append(d)
    return chain


FAMILY_X = [0.37, 0.9, 1.7, 2.6, 3.9, 5.2]
FAMILY_TRIALS = [[-0.8, -1.6, 0.7, 1.9, -0.6], [1.3, -0.45, 2.2, -1.1, 0.8], [0.21, 2.3, -1.7, 0.5, 1.4], [-1.2, 0.9, 1.1, -0.3, 2.1], [0.4, 1.7, -0.9, -2.2, 0.6]]


def family_check(ef, eu, kf, ku, locs):
    """A map marked unrecoverable ('nan'): the unique function (ku < kf parameters) must still describe the same family of curves.  Checked
    one way, numerically: for five parameter vectors of the function (mixed signs and orders) its values on six abscissae must be attained by the unique
    function for SOME parameter vector -- dense signed log grid (ku <= 2) refined by least squares.  Returns None (fine / not decidable here) or
    a message.  Conservative: a trial counts only if the function is finite there; a failure is reported only if at least two trials fail."""
    import numpy as np, sympy, warnings
    from scipy.optimize import least_squares
    if ku > 2:
        return None
    xs = np.array(FAMILY_X)
    xsym = locs["x"]
    fa = [locs["a%d" % j] for j in range(max(kf, 1))]
    ua = [locs["a%d" % j] for j in range(max(ku, 1))]
    try:
        ff = sympy.lambdify([xsym] + fa, ef, modules=["numpy"])
        fu = sympy.lambdify([xsym] + ua, eu, modules=["numpy"])
    except Exception:
        return None
    g1 = np.concatenate([-np.logspace(-8, 8, 321)[::-1], [0.0], np.logspace(-8, 8, 321)])
    g2 = np.concatenate([-np.logspace(-4, 4, 61)[::-1], [0.0], np.logspace(-4, 4, 61)])
    failed, tried, witness = 0, 0, None
    with warnings.catch_warnings(), np.errstate(all="ignore"):
        warnings.simplefilter("ignore")
        for par in FAMILY_TRIALS:
            try:
                y = np.broadcast_to(np.asarray(ff(xs, *par[:max(kf, 1)]), dtype=complex), xs.shape)
            except Exception:
                continue
            if not np.all(np.isfinite(y)) or np.max(np.abs(y.imag)) > 1e-12 * max(1.0, np.max(np.abs(y.real))):
                continue
            y = y.real.astype(float)
            scale = max(1.0, float(np.max(np.abs(y))))
            tried += 1

            def res(th):
                try:
                    v = np.broadcast_to(np.asarray(fu(xs, *th), dtype=complex), xs.shape)
                except Exception:
                    return np.full(xs.shape, 1e6)
                r = np.where(np.isfinite(v), np.abs(v - y), 1e6)
                return np.asarray(r, float) / scale
            if ku == 0:
                best = float(np.max(res([0.0])))
            else:
                if ku == 1:
                    cands = [(float(np.max(res([t]))), [t]) for t in g1]
                else:
                    cands = [(float(np.max(res([t, u_]))), [t, u_]) for t in g2 for u_ in g2]
                cands.sort(key=lambda c: c[0])
                best = cands[0][0]
                for c0, th0 in cands[:8]:
                    if best < 1e-7:
                        break
                    try:
                        o = least_squares(lambda th: res(list(th)), np.array(th0, float), xtol=1e-15, ftol=1e-15, gtol=1e-15, max_nfev=400)
                        best = min(best, float(np.max(res(list(o.x)))))
                    except Exception:
                        pass
            if best > 1e-5:
                failed += 1
                witness = (par[:max(kf, 1)], [float(v) for v in y], best)
    if tried >= 2 and failed >= 2:
        return "marked unrecoverable, but the unique function does not attain the function's values: at a=%s the function takes %s on x=%s, the closest the unique function gets is %.3g (relative, over a signed log grid refined by least squares)" % (
            witness[0], ["%.6g" % v for v in witness[1]], FAMILY_X, witness[2])
    return None


def library_predicate(runname, n, basis=None, sample=None, seed=0):
    import sympy, csv
    fails, cases, distinct = [], 0, 0
    lib = stages.load_library(runname, n)
    allf, uniq, matches = lib["all_equations"], lib["unique_equations"], lib["matches"]
    with open(os.path.join(stages.lib_dir(runname, n), "inv_subs_%d.txt" % n)) as f:
        inv = [r for r in csv.reader(f, delimiter=";")]
    N = len(allf)
    tag = "%s/%d" % (runname, n)
    for nm, t in (("trees", lib["trees"]), ("matches", matches), ("inv_subs", inv), ("aifeyn", lib["aifeyn"])):
        if t is None or len(t) != N:
            fails.append({"lib": tag, "error": "%s has %s lines, all_equations has %d" % (nm, None if t is None else len(t), N)})
    if fails:
        return cases, distinct, fails
    if len(set(uniq)) != len(uniq):
        d = [u for u, c in collections.Counter(uniq).items() if c > 1][:3]
        fails.append({"lib": tag, "error": "unique entries are not pairwise distinct: %s" % d})
    for u in uniq:
        k = count_params(u)
        gaps = [j for j in range(k) if not re.search(r"a%d(?!\d)" % j, u)]
        if gaps:
            fails.append({"lib": tag, "error": "unique function %r uses a%d but not a%s (gap)" % (u, k - 1, gaps)})
    locs = gen_locals(8)
    m = [int(float(v)) for v in matches]
    idxs = list(range(N))
    if sample and N > sample:
        import random
        idxs = sorted(random.Random(seed).sample(idxs, sample))
    for i in idxs:
        cases += 1
        if not (0 <= m[i] < len(uniq)):
            fails.append({"lib": tag, "line": i, "error": "match index %d out of range (%d uniques)" % (m[i], len(uniq))})
            continue
        f, u = allf[i], uniq[m[i]]
        kf, ku = count_params(f), count_params(u)
        try:
            chain = load_chain(inv[i], locs)
        except Exception as e:
            fails.append({"lib": tag, "line": i, "error": "cannot parse recorded map %r: %s" % (inv[i], e)})
            continue
        if any(c is None for c in chain):
            if not ku < kf:
                fails.append({"lib": tag, "line": i, "function": f, "unique": u,
                              "error": "map marked unrecoverable (nan) although the unique function does not have fewer parameters (%d vs %d)" % (ku, kf)})
            elif not (u.startswith("<class") or u in ("nan", "zoo")):
                try:
                    msg = family_check(sympy.sympify(f, locals=locs), sympy.sympify(u, locals=locs), kf, ku, locs)
                except Exception:
                    msg = None
                if msg and len(fails) < 8:
                    fails.append({"lib": tag, "line": i, "function": f, "unique": u, "error": "function %r -> unique %r: %s" % (f, u, msg)})
            continue
        if len(chain) > 0:
            distinct += 1
        if u.startswith("<class") or u in ("nan", "zoo"):
            # the bucket of functions that are undefined everywhere (zoo/nan); its members must be undefined too
            try:
                ef = sympy.sympify(f, locals=locs)
                vals = [oracle.sym_eval(ef, x, par) for (x, par) in oracle.POINTS]
            except Exception:
                vals = [None]
            if any(v is not None for v in vals):
                fails.append({"lib": tag, "line": i, "function": f, "unique": u,
                              "error": "function %r is matched to the undefined bucket %r but has values %s" % (f, u, [str(v) for v in vals])})
            continue
        try:
            ef = sympy.sympify(f, locals=locs)
            eu = sympy.sympify(u, locals=locs)
        except Exception as e:
            fails.append({"lib": tag, "line": i, "error": "cannot parse %r / %r: %s" % (f, u, e)})
            continue
        kk = max(kf, ku, 1)
        syms = [locs["a%d" % j] for j in range(kk)]
        pvec = sympy.Array(syms)
        for sub in chain:
            pvec = pvec.subs(sub, simultaneous=True)
        ndef, bad = 0, None
        for (x, par) in oracle.POINTS:
            uv = oracle.sym_eval(eu, x, par)
            if uv is None:
                continue
            newp = []
            okp = True
            for j in range(kk):
                v = oracle.sym_eval(sympy.sympify(pvec[j]), x, par)
                if v is None:
                    okp = False
                    break
                newp.append(v)
            if not okp:
                continue
            fv = oracle.sym_eval(ef, x, newp + [0] * 8)
            ndef += 1
            if fv is None or not oracle.close(fv, uv, mp.mpf(10) ** -9):
                bad = {"lib": tag, "line": i, "function": f, "unique": u, "map": inv[i], "x": x, "theta": par[:kk],
                       "mapped": [str(v) for v in newp], "function_value": str(fv), "unique_value": str(uv)}
                break
        if bad and len(fails) < 8:
            bad["error"] = "function %r with its recorded map %s is not its unique %r (%s vs %s at x=%s)" % (
                f, inv[i], u, bad["function_value"], bad["unique_value"], x)
            fails.append(bad)
    return cases, distinct, fails


def c03(p):
    fails, cases, distinct = [], 0, 0
    for job in p["jobs"]:
        err = ensure_lib(job["runname"], job["n"], job.get("basis"), P=job.get("P", 1))
        if err:
            fails.append({"job": job, "error": err})
            continue
        c, d, f = library_predicate(job["runname"], job["n"], job.get("basis"), job.get("sample"), p.get("seed", 0))
        cases += c
        distinct += d
        for x in f:
            x["job"] = job
        fails += f
    return {"cases": cases, "distinct": distinct, "failures": fails[:5]}


# ------------------------------------------------------------------------------------ C13
def file_hashes(runname, n):
    d = stages.lib_dir(runname, n)
    out = {}
    for nm in ("trees", "orig_trees", "extra_trees", "all_equations", "aifeyn", "unique_equations", "matches", "inv_subs"):
        pth = os.path.join(d, "%s_%d.txt" % (nm, n))
        out[nm] = hashlib.sha256(open(pth, "rb").read()).hexdigest()[:16] if os.path.exists(pth) else None
    return out


def c13(p):
    import shutil
    fails, cases, distinct = [], 0, 0
    for job in p["jobs"]:
        runname, n, basis = job["runname"], job["n"], job.get("basis")
        ref = None
        for P in job["P_list"]:
            shutil.rmtree(stages.lib_dir(runname), ignore_errors=True)
            delay = None
            if P > 1 and job.get("perturb"):
                delay = {"seed": p.get("seed", 0) + P, "p": 0.3, "dt": 0.02, "slow_ranks": [p.get("seed", 0) % P]}
            r = stages.generate(runname, n, P=P, basis=basis, delay_spec=delay)
            ss, errs = stages.statuses(r)
            cases += 1
            if any(s != "ok" for s in ss):
                fails.append({"job": job, "P": P, "error": "generation with %d ranks did not terminate on ranks %s: %s" % (
                    P, [i for i, s in enumerate(ss) if s != "ok"][:8], short_err((errs or ["hang/timeout"])[0], 500))})
                continue
            h = file_hashes(runname, n)
            if ref is None:
                ref = (P, h)
            else:
                distinct += 1
                for nm in ("trees", "all_equations", "aifeyn"):
                    if h[nm] != ref[1][nm]:
                        fails.append({"job": job, "P": P, "error": "%s_%d.txt with %d ranks differs from the file with %d rank(s)" % (nm, n, P, ref[0])})
            c, d, f = library_predicate(runname, n, basis, job.get("sample"), p.get("seed", 0))
            for x in f:
                x["P"] = P
                x["job"] = job
                x["error"] = "with %d ranks: %s" % (P, x["error"])
            fails += f
    return {"cases": cases, "distinct": distinct, "failures": fails[:5]}


# ---------------------------------------------------------- check_results as the safety net, on any rank count
def _cr_entry(dirname, compl):
    import esr.generation.simplifier as simplifier
    simplifier.check_results(dirname, compl)
    return True


def c13cr(p):
    """Corrupt the recorded map of some functions of a generated library, run the real check_results on P ranks, and require
    the C03 library predicate afterwards: every function whose map cannot be verified must have been un-merged."""
    import csv, shutil, random
    from spmd import run_spmd
    fails, cases, distinct = [], 0, 0
    for job in p["jobs"]:
        runname, n, basis = job["runname"], job["n"], job.get("basis")
        err = ensure_lib(runname, n, basis)
        if err:
            fails.append({"job": job, "error": err})
            continue
        d = stages.lib_dir(runname, n)
        keep = d.rstrip("/") + "_pristine"
        if os.path.exists(keep):
            shutil.rmtree(keep)
        shutil.copytree(d, keep)
        with open(os.path.join(keep, "inv_subs_%d.txt" % n)) as f:
            inv = [r for r in csv.reader(f, delimiter=";")]
        rng = random.Random(p.get("seed", 0) + n)
        cand = [i for i, r in enumerate(inv) if len(r) > 0 and "nan" not in r]
        rng.shuffle(cand)
        chosen = sorted(cand[:job.get("ncorrupt", 6)])
        for P in job["P_list"]:
            shutil.rmtree(d)
            shutil.copytree(keep, d)
            inv2 = [list(r) for r in inv]
            for i in chosen:
                inv2[i] = ["{a0: 2*a0 + 1}"] + inv2[i]
            with open(os.path.join(d, "inv_subs_%d.txt" % n), "w") as f:
                csv.writer(f, delimiter=";").writerows(inv2)
            # how many of them are really wrong now (numerically)?
            c0, d0, f0 = library_predicate(runname, n, basis, None, 0)
            wrong = sorted(set(x.get("line") for x in f0 if x.get("line") is not None))
            r = run_spmd(P, "rt_gen:_cr_entry", (d, n), timeout=600, mpi_timeout=120, quiet=2)
            ss = [x["status"] for x in r]
            cases += 1
            if any(s_ != "ok" for s_ in ss):
                fails.append({"job": job, "P": P, "error": "check_results on %d ranks did not complete on ranks %s: %s" % (
                    P, [i for i, s_ in enumerate(ss) if s_ != "ok"][:6], short_err(([x["error"] for x in r if x["error"]] or ["hang"])[0]))})
                continue
            c1, d1, f1 = library_predicate(runname, n, basis, None, 0)
            if wrong:
                distinct += 1
            if f1:
                x = f1[0]
                fails.append({"job": job, "P": P, "error": "after check_results on %d ranks (maps of functions %s corrupted beforehand, %d numerically wrong): %s" % (
                    P, chosen, len(f0), x["error"][:500])})
        shutil.rmtree(d)
        shutil.copytree(keep, d)
        shutil.rmtree(keep)
    return {"cases": cases, "distinct": distinct, "failures": fails[:5]}


def main(p):
    return {"c13cr": c13cr, "shapes": shapes_check, "c01": c01, "c02": c02, "c03": c03, "c13": c13}[p["mode"]](p)


if __name__ == "__main__":
    io_main(main)
