"""Runtime side of C09: the real likelihood classes on enumerated special inputs vs the documented
formulas computed independently (math.fsum)."""
import os
import math, random, itertools
import numpy as np
from hcommon import io_main


def mk(cls, x, y, yerr):
    import esr.fitting.likelihood as L
    C = getattr(L, cls)
    o = C.__new__(C)
    o.xvar, o.yvar = np.array(x, float), np.array(y, float)
    if cls != "PoissonLikelihood":
        o.yerr = np.array(yerr, float)
    if cls in ("CCLikelihood", "MockLikelihood"):
        with np.errstate(all="ignore"):
            o.inv_cov = 1 / o.yerr ** 2
    if cls == "MSE":
        o.yerr = 0.
    o.is_mse = (cls == "MSE")
    return o


def formula(cls, f, y, s):
    n = len(y)
    if cls == "GaussLikelihood":
        return math.fsum((y[k] - f[k]) ** 2 / (2 * s[k] ** 2) + math.log(2 * math.pi) / 2 + math.log(s[k]) for k in range(n))
    if cls == "PoissonLikelihood":
        return math.fsum(f[k] - y[k] * math.log(f[k]) for k in range(n))
    if cls in ("CCLikelihood", "MockLikelihood"):
        return math.fsum((math.sqrt(f[k]) - y[k]) ** 2 / (2 * s[k] ** 2) for k in range(n))
    if cls == "MSE":
        return math.fsum((y[k] - f[k]) ** 2 for k in range(n)) / n


def main(p):
    import warnings
    warnings.filterwarnings("ignore")
    rng = random.Random(p.get("seed", 0))
    fails, cases, distinct = [], 0, 0
    # history: the sweep runs in a process that has already evaluated the supernova class on models that are zero / negative / NaN on its integration grid (the classes
    # share one process in a fitting run; whatever that evaluation leaves behind in numpy's process-wide state is part of what the other classes see)
    try:
        import esr.fitting.likelihood as L_
        pl = L_.PanthLikelihood.__new__(L_.PanthLikelihood)
        pl.delta_z, pl.min_nz, pl.mu_const = 0.05, 10, 0.0
        for model in (lambda xx, *a: 0.0 * xx, lambda xx, *a: -1.0 - 0.0 * xx, lambda xx, *a: xx - 1.5, lambda xx, *a: float("nan") * xx):
            pl.data_x = pl.data_mask = None
            try:
                pl.get_pred(np.array([1.1, 1.5, 2.0]), [], model)
            except Exception:
                pass
            try:
                pl.get_pred(np.array([1.1, 1.5, 2.0]), [1.0], model)
            except Exception:
                pass
    except Exception:
        pass
    classes = ["GaussLikelihood", "PoissonLikelihood", "CCLikelihood", "MockLikelihood", "MSE"]
    specials = [float("nan"), float("inf"), float("-inf"), -1.5, 0.0, complex(1.0, 2.0), complex(2.0, 0.0)]
    for cls in classes:
        for n in p.get("sizes", [1, 2, 5]):
            for rep in range(p.get("reps", 6)):
                x = [0.5 + rng.random() * 3 for _ in range(n)]
                y = [0.2 + rng.random() * 5 for _ in range(n)]
                s = [0.1 + rng.random() for _ in range(n)]
                f = [0.3 + rng.random() * 4 for _ in range(n)]
                o = mk(cls, x, y, s)
                variants = [("finite", list(f), None)]
                for sp in specials:
                    k = rng.randrange(n)
                    g = list(f)
                    g[k] = sp
                    variants.append(("special %r at %d" % (sp, k), g, sp))
                variants.append(("scalar", f[0], None))
                variants.append(("scalar nan", float("nan"), float("nan")))
                variants.append(("raises", None, "raise"))
                if rep == 0:
                    variants.append(("zero error bar", list(f), "zero-sigma"))
                    variants.append(("infinite datum", list(f), "inf-y"))
                # complex predictions whose imaginary parts cancel in the reduced statistic (the result of the formula is real although
                # the prediction is not): purely imaginary model on zero data, real part equal to the data, a single such element
                if rep < 2:
                    variants.append(("purely imaginary prediction on zero data", [complex(0.0, 0.5 + v) for v in f], "cancel-zero-y"))
                    variants.append(("complex prediction whose real part equals the data", [complex(y[k_], 0.3 + f[k_]) for k_ in range(n)], "cancel"))
                    k1 = rng.randrange(n)
                    variants.append(("one complex element whose real part equals the datum", [complex(y[k_], 1.25) if k_ == k1 else y[k_] + 0.5 for k_ in range(n)], "cancel"))
                for name, g, sp in variants:
                    oo = o
                    if sp == "zero-sigma":
                        if cls in ("PoissonLikelihood", "MSE"):
                            continue
                        s2 = list(s)
                        s2[0] = 0.0
                        oo = mk(cls, x, y, s2)
                    if sp == "inf-y":
                        y2 = list(y)
                        y2[0] = float("inf")
                        oo = mk(cls, x, y2, s)
                    if sp == "cancel-zero-y":
                        oo = mk(cls, x, [0.0] * n, s)

                    def eq_numpy(xx, *a, g=g):
                        if g is None:
                            raise FloatingPointError("model cannot be evaluated")
                        if isinstance(g, list):
                            return np.array(g)
                        return g
                    cases += 1
                    try:
                        r = oo.negloglike([1.0], eq_numpy)
                    except Exception as e:
                        if g is None and cls in ("CCLikelihood", "MockLikelihood"):
                            continue      # these two classes let model errors propagate (callers catch them)
                        fails.append({"cls": cls, "case": name, "error": "%s raised %s: %s" % (cls, type(e).__name__, e)})
                        continue
                    rr = complex(r)
                    if rr != rr or (isinstance(r, float) and math.isnan(r)) or np.isnan(r):
                        fails.append({"cls": cls, "case": name, "pred": repr(g), "y": y, "yerr": s, "error": "%s.negloglike returned NaN (%s)" % (cls, name)})
                        continue
                    must_inf = False
                    if g is None:
                        must_inf = True
                    elif sp in ("cancel", "cancel-zero-y"):
                        must_inf = True
                    elif sp is not None and not isinstance(sp, str):
                        if isinstance(sp, complex) and sp.imag != 0:
                            must_inf = True
                        elif isinstance(sp, float) and math.isnan(sp):
                            must_inf = True
                        elif cls == "PoissonLikelihood" and isinstance(sp, float) and sp <= 0:
                            must_inf = True
                    if must_inf:
                        distinct += 1
                        if not (np.isreal(r) and float(np.real(r)) == float("inf")):
                            fails.append({"cls": cls, "case": name, "pred": repr(g), "y": y, "yerr": s,
                                          "error": "%s.negloglike returned %r, must be +inf (%s)" % (cls, r, name)})
                        continue
                    if name in ("finite", "scalar") or (isinstance(sp, complex) and sp.imag == 0):
                        gg = g if isinstance(g, list) else [g] * n
                        gg = [v.real if isinstance(v, complex) else v for v in gg]
                        want = formula(cls, gg, y, s)
                        distinct += 1
                        got = float(np.real(r))
                        if not (abs(got - want) <= 1e-9 * max(1.0, abs(want))):
                            fails.append({"cls": cls, "case": name, "pred": repr(g), "y": y, "yerr": s,
                                          "error": "%s.negloglike returned %r, documented formula gives %r" % (cls, r, want)})
    # a model that hands back its own argument (f(x) = x, as sympy.lambdify compiles it), on a likelihood object that is used again:
    # the data vectors must be what they were and a second call must give the same number
    for cls in classes:
        for n in (1, 3, 7):
            x = [0.5 + rng.random() * 3 for _ in range(n)]
            y = [0.2 + rng.random() * 5 for _ in range(n)]
            s = [0.1 + rng.random() for _ in range(n)]
            o = mk(cls, x, y, s)
            keep = {nm: np.array(getattr(o, nm), copy=True) for nm in ("xvar", "yvar", "yerr", "inv_cov") if getattr(o, nm, None) is not None}
            ident = lambda xx, *a: xx
            cases += 1
            try:
                r1 = o.negloglike([1.0], ident)
                r2 = o.negloglike([1.0], ident)
            except Exception as e:
                fails.append({"cls": cls, "case": "identity model", "error": "%s raised %s: %s" % (cls, type(e).__name__, e)})
                continue
            distinct += 1
            changed = [nm for nm, v in keep.items() if not np.array_equal(np.asarray(getattr(o, nm)), v, equal_nan=True)]
            if changed:
                fails.append({"cls": cls, "case": "identity model", "x": x, "y": y, "yerr": s,
                              "error": "%s.negloglike with the model f(x) = x (which returns the abscissa array itself) modified the likelihood's %s" % (cls, ", ".join(changed))})
            elif not (r1 == r2 or (r1 != r1 and r2 != r2)):
                fails.append({"cls": cls, "case": "identity model", "x": x, "y": y, "yerr": s,
                              "error": "%s.negloglike returned %r and then %r for the same model and parameters on the same object" % (cls, r1, r2)})
    # the real constructors: the data vectors are the columns of the data file, row by row (abscissae in no particular order, unequal errors),
    # and the likelihood of a model is the documented formula over THOSE rows
    import tempfile, shutil, esr.fitting.likelihood as LM
    tmp = tempfile.mkdtemp(prefix="esrverif_c09_")
    try:
        for cls, ncol in (("GaussLikelihood", 3), ("PoissonLikelihood", 2), ("MSE", 3)):
            for n in (2, 5, 11):
                x = [round(0.5 + rng.random() * 3, 6) for _ in range(n)]
                rng.shuffle(x)
                y = [float(rng.randint(1, 9)) if cls == "PoissonLikelihood" else round(0.2 + rng.random() * 5, 6) for _ in range(n)]
                s_ = [round(0.1 + rng.random(), 6) for _ in range(n)]
                cols = [x, y, s_][:ncol]
                fn = "data_%s_%d.txt" % (cls, n)
                np.savetxt(os.path.join(tmp, fn), np.array(cols).T)
                cases += 1
                try:
                    o = getattr(LM, cls)(fn, "verif_c09_%s_%d" % (cls, n), data_dir=tmp)
                except Exception as e:
                    fails.append({"cls": cls, "case": "constructor", "error": "%s(%r) raised %s: %s" % (cls, fn, type(e).__name__, e)})
                    continue
                distinct += 1
                got = [np.asarray(o.xvar, float), np.asarray(o.yvar, float)] + ([np.asarray(o.yerr, float)] if cls == "GaussLikelihood" else [])
                want = [np.array(x), np.array(y)] + ([np.array(s_)] if cls == "GaussLikelihood" else [])
                names = ["xvar", "yvar", "yerr"]
                bad = [names[j] for j in range(len(got)) if got[j].shape != want[j].shape or not np.array_equal(got[j], want[j])]
                if bad:
                    # the order of the rows does not matter as long as the columns stay together
                    rows_got = sorted(zip(*[g.tolist() for g in got])) if all(g.shape == got[0].shape for g in got) else None
                    rows_want = sorted(zip(*[w.tolist() for w in want]))
                    if rows_got != rows_want:
                        fails.append({"cls": cls, "case": "constructor", "x": x, "y": y, "yerr": s_,
                                      "error": "%s built from a file with rows (x, y%s) = %s holds xvar=%s yvar=%s%s: the rows of the file are torn apart" % (
                                          cls, ", yerr" if cls == "GaussLikelihood" else "", [tuple(r) for r in zip(*want)][:4], got[0].tolist()[:4], got[1].tolist()[:4],
                                          (" yerr=%s" % got[2].tolist()[:4]) if len(got) > 2 else "")})
                        continue
                f = [0.3 + 0.7 * v for v in np.asarray(o.xvar, float)]
                r = o.negloglike([1.0], lambda xx, *a: 0.3 + 0.7 * np.asarray(xx))
                want_nll = formula(cls, f, list(np.asarray(o.yvar, float)), list(np.asarray(getattr(o, "yerr", np.ones(n)), float)) if cls == "GaussLikelihood" else s_)
                if not abs(float(np.real(r)) - want_nll) <= 1e-9 * max(1.0, abs(want_nll)):
                    fails.append({"cls": cls, "case": "constructor", "error": "%s built from %s: negloglike of 0.3 + 0.7 x is %r, documented formula over the file's rows gives %r" % (cls, fn, r, want_nll)})
    finally:
        shutil.rmtree(tmp, ignore_errors=True)
    return {"cases": cases, "distinct": distinct, "failures": fails[:5]}


if __name__ == "__main__":
    io_main(main)
