"""Bounded stand-in of the contract of simplifier.make_changes on the multi-process MPI stand-in: for N functions and P ranks
(P > N included) every rank holds the same global lists and its own local lists (the np.array_split slice of the global ones with
random entries changed); after the call EVERY rank must hold: all_fun' = concatenation of the local string lists in rank order;
all_sym' / all_inv_subs' take the local entry (a copy, or None) exactly where the string changed and are unchanged elsewhere."""
import random
import numpy as np
from hcommon import io_main, short_err


def _inputs(N, P, seed):
    rng = random.Random(seed)
    all_fun = ["f%d" % i for i in range(N)]
    all_sym = ["S%d" % i for i in range(N)]
    all_inv = [({"k": i} if rng.random() < 0.7 else None) for i in range(N)]
    parts = np.array_split(np.arange(N), P)
    local = []
    for q in range(P):
        idx = [int(i) for i in parts[q]]
        s = [all_fun[i] for i in idx]
        y = [all_sym[i] for i in idx]
        v = [(dict(all_inv[i]) if all_inv[i] is not None else None) for i in idx]
        for c in range(len(idx)):
            u = rng.random()
            if u < 0.4:
                s[c] = "g%d_%d" % (q, c)
                y[c] = "T%d_%d" % (q, c)
                v[c] = {"n": (q, c)} if rng.random() < 0.7 else None
            elif u < 0.55:
                # string unchanged, the other two differ: must NOT be propagated
                y[c] = "U%d_%d" % (q, c)
                v[c] = {"u": (q, c)}
        local.append((idx, s, y, v))
    return all_fun, all_sym, all_inv, local


def _expected(all_fun, all_sym, all_inv, local):
    ef, es, ei = list(all_fun), list(all_sym), list(all_inv)
    for idx, s, y, v in local:
        for c, i in enumerate(idx):
            if s[c] != all_fun[i]:
                ef[i], es[i], ei[i] = s[c], y[c], v[c]
    return ef, es, ei


def _entry(N, P, seed):
    from mpi4py import MPI
    import esr.generation.simplifier as S
    r = MPI.COMM_WORLD.Get_rank()
    all_fun, all_sym, all_inv, local = _inputs(N, P, seed)
    ef, es, ei = _expected(all_fun, all_sym, all_inv, local)
    idx, s, y, v = local[r]
    out = S.make_changes(all_fun, all_sym, all_inv, s, y, v)
    if not (isinstance(out, tuple) and len(out) == 3):
        return "rank %d: make_changes returned %r" % (r, type(out))
    of, os_, oi = out
    if list(of) != ef:
        k = [i for i in range(max(len(of), len(ef))) if i >= len(of) or i >= len(ef) or of[i] != ef[i]][0]
        return "rank %d: all_fun after the merge differs from the concatenation of the local lists at position %d: %r, expected %r (N=%d, P=%d, seed=%d)" % (
            r, k, of[k] if k < len(of) else None, ef[k] if k < len(ef) else None, N, P, seed)
    if list(os_) != es:
        k = [i for i in range(N) if os_[i] != es[i]][0]
        return "rank %d: all_sym[%d] = %r after the merge, expected %r (N=%d, P=%d, seed=%d)" % (r, k, os_[k], es[k], N, P, seed)
    if list(oi) != ei:
        k = [i for i in range(N) if oi[i] != ei[i]][0]
        return "rank %d: all_inv_subs[%d] = %r after the merge, expected %r (N=%d, P=%d, seed=%d)" % (r, k, oi[k], ei[k], N, P, seed)
    for c, i in enumerate(idx):
        if v[c] is not None and oi[i] is v[c]:
            return "rank %d: all_inv_subs[%d] is the local dictionary itself, not a copy" % (r, i)
    return None


def array_split(p):
    """run-time validation of the external contract used for np.array_split: piece q of arange(N) cut into P pieces is
    arange(lo(q), lo(q+1)) with lo(q) = q*(N//P) + min(q, N%P) (the closed form of utils.split_idx)"""
    fails, cases = [], 0
    for N in range(0, p.get("nmax", 48) + 1):
        for P in range(1, p.get("pmax", 20) + 1):
            parts = np.array_split(np.arange(N), P)
            a, e = divmod(N, P)
            lo = lambda q: q * a + min(q, e)
            cases += 1
            if len(parts) != P or any(list(parts[q]) != list(range(lo(q), lo(q + 1))) for q in range(P)):
                fails.append({"N": N, "P": P, "error": "np.array_split(arange(%d), %d) is not the closed-form tiling" % (N, P)})
    return {"cases": cases, "distinct": cases, "failures": fails[:3]}


def main(p):
    if p.get("mode") == "array_split":
        return array_split(p)
    from spmd import run_spmd
    fails, cases = [], 0
    for (N, P) in p["NP"]:
        for seed in (p["exact_seeds"] if "exact_seeds" in p else [p.get("seed", 0) * 100 + sd for sd in range(p.get("seeds", 2))]):
            r = run_spmd(P, "rt_merge:_entry", (N, P, seed), timeout=120, mpi_timeout=30, quiet=2)
            cases += 1
            bad = [i for i, x in enumerate(r) if x["status"] != "ok"]
            if bad:
                fails.append({"N": N, "P": P, "seed": seed, "error": "make_changes on %d ranks (N=%d) did not complete on ranks %s: %s" % (
                    P, N, bad[:6], short_err(([x["error"] for x in r if x["error"]] or ["hang"])[0]))})
                continue
            msgs = [x["result"] for x in r if x["result"]]
            if msgs:
                fails.append({"N": N, "P": P, "seed": seed, "error": msgs[0]})
    return {"cases": cases, "distinct": cases, "failures": fails[:3]}


if __name__ == "__main__":
    io_main(main)
