"""Sidecar contracts for esr/generation/utils.py (real file, untouched)."""
import z3
from pyvc.engine import Contract, LoopSpec
from pyvc.values import T, VInt, VTuple, Unsupported


def lo(N, r, P):
    """Start of rank r's slice: r*q + min(r, e) with q, e = divmod(N, P)."""
    q, e = N / P, N % P          # P > 0: SMT div/mod agree with Python's
    return r * q + z3.If(r < e, r, e)


def split_idx_contract():
    def requires(S, a):
        N, r, P = a["Ntotal"].t, a["r"].t, a["indices_or_sections"].t
        return [("N >= 0", N >= 0), ("P >= 1", P >= 1), ("0 <= r < P", z3.And(0 <= r, r < P))]

    def ensures(S, a, res):
        N, r, P = a["Ntotal"].t, a["r"].t, a["indices_or_sections"].t
        L, H = lo(N, r, P), lo(N, r + 1, P)
        n = S.len(res)
        empty = z3.And(n == 0, L >= H)
        pair = z3.And(n == 2, S.i(res, 0) == L, S.i(res, 1) == H - 1)
        return [("result is [] for an empty slice or [lo(r), lo(r+1)-1]", z3.Or(empty, pair)),
                ("a non-empty slice is never reported empty", z3.Implies(L < H, pair))]

    def raises(S, a, exc):
        return z3.BoolVal(False)

    def div_points_lemma(S, st):
        """Closed form of the prefix sums: div_points[m] = lo(m) for 0 <= m <= P, by induction
        on m (base and step are quantifier-free obligations; the step unfolds the sum once)."""
        from pyvc.models import SUMI, sum_unfold
        a = S.eng.args0
        N, P = a["Ntotal"].t, a["indices_or_sections"].t
        note = S.note(S.var("div_points"))
        if not note or note[0] != "cumsum":
            raise Unsupported("div_points is not a cumulative sum any more")
        arr = note[1]
        n = S.len(S.var("div_points"))
        S.prove("div_points has P+1 entries", n == P + 1)
        S.prove("prefix-sum lemma, base: div_points[0] = lo(0)",
                z3.Implies(sum_unfold(arr, z3.IntVal(0), SUMI), SUMI(arr, z3.IntVal(1)) == lo(N, z3.IntVal(0), P)))
        m = z3.Int("m!ind")
        hyp = SUMI(arr, m + 1) == lo(N, m, P)
        step = z3.Implies(z3.And(0 <= m, m < P, hyp, sum_unfold(arr, m + 1, SUMI)), SUMI(arr, m + 2) == lo(N, m + 1, P))
        S.eng.oblige(st, "prefix-sum lemma, step: div_points[m] = lo(m) => div_points[m+1] = lo(m+1)",
                     z3.ForAll([m], step), "lemma", None, "induction step")
        st.assume(sum_unfold(arr, z3.IntVal(0), SUMI))
        st.assume(z3.ForAll([m], z3.Implies(z3.And(1 <= m, m <= P + 1), SUMI(arr, m) == lo(N, m - 1, P)),
                            patterns=[SUMI(arr, m)]))

    return Contract("split_idx", {"Ntotal": T.int, "r": T.int, "indices_or_sections": T.int},
                    requires=requires, ensures=ensures, raises=raises, returns=T.list(T.int),
                    hooks={"div_points": div_points_lemma})


def tiling_lemmas():
    """Facts about lo() that make the slices a tiling of 0..N-1 (pure arithmetic; each is an
    obligation of its own, proved for all N, P, r)."""
    N, P, r = z3.Ints("N P r")
    pre = z3.And(N >= 0, P >= 1)
    return [
        ("lo(0) = 0", z3.Implies(pre, lo(N, z3.IntVal(0), P) == 0)),
        ("lo(P) = N", z3.Implies(pre, lo(N, P, P) == N)),
        ("lo is monotone: lo(r) <= lo(r+1)", z3.Implies(z3.And(pre, 0 <= r, r < P), lo(N, r, P) <= lo(N, r + 1, P))),
        ("slice sizes differ by at most one", z3.Implies(z3.And(pre, 0 <= r, r < P),
                                                         z3.And(lo(N, r + 1, P) - lo(N, r, P) >= N / P,
                                                                lo(N, r + 1, P) - lo(N, r, P) <= N / P + 1))),
    ]
