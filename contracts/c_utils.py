"""Sidecar contracts for esr/generation/utils.py (real file, untouched)."""
import z3
from pyvc.engine import Contract, LoopSpec
from pyvc.values import T, VInt, VTuple, HSeq, Unsupported


def lo(N, r, P):
    """Start of rank r's slice: r*q + min(r, e) with q, e = divmod(N, P)."""
    q, e = N / P, N % P          # P > 0: SMT div/mod agree with Python's
    return r * q + z3.If(r < e, r, e)


def split_idx_contract():
    def requires(S, a):
        N, r, P = a["Ntotal"].t, a["r"].t, a["indices_or_sections"].t
        return [("N >= 0", N >= 0), ("P >= 1", P >= 1), ("0 <= r < P", z3.And(0 <= r, r < P))]

    def ensures(S, a, res):
        N, r, P = a["Ntotal"].t, a["r"].t, a["indices_or_sections"].t
        L, H = lo(N, r, P), lo(N, r + 1, P)
        n = S.len(res)
        empty = z3.And(n == 0, L >= H)
        pair = z3.And(n == 2, S.i(res, 0) == L, S.i(res, 1) == H - 1)
        return [("result is [] for an empty slice or [lo(r), lo(r+1)-1]", z3.Or(empty, pair)),
                ("a non-empty slice is never reported empty", z3.Implies(L < H, pair))]

    def raises(S, a, exc):
        return z3.BoolVal(False)

    def div_points_lemma(S, st):
        """Closed form of the prefix sums: div_points[m] = lo(m) for 0 <= m <= P, by induction
        on m (base and step are quantifier-free obligations; the step unfolds the sum once)."""
        from pyvc.models import SUMI, sum_unfold
        a = S.eng.args0
        N, P = a["Ntotal"].t, a["indices_or_sections"].t
        note = S.note(S.var("div_points"))
        if not note or note[0] != "cumsum":
            raise Unsupported("div_points is not a cumulative sum any more")
        arr = note[1]
        n = S.len(S.var("div_points"))
        S.prove("div_points has P+1 entries", n == P + 1)
        S.prove("prefix-sum lemma, base: div_points[0] = lo(0)",
                z3.Implies(sum_unfold(arr, z3.IntVal(0), SUMI), SUMI(arr, z3.IntVal(1)) == lo(N, z3.IntVal(0), P)))
        m = z3.Int("m!ind")
        hyp = SUMI(arr, m + 1) == lo(N, m, P)
        step = z3.Implies(z3.And(0 <= m, m < P, hyp, sum_unfold(arr, m + 1, SUMI)), SUMI(arr, m + 2) == lo(N, m + 1, P))
        S.eng.oblige(st, "prefix-sum lemma, step: div_points[m] = lo(m) => div_points[m+1] = lo(m+1)",
                     z3.ForAll([m], step), "lemma", None, "induction step")
        st.assume(sum_unfold(arr, z3.IntVal(0), SUMI))
        st.assume(z3.ForAll([m], z3.Implies(z3.And(1 <= m, m <= P + 1), SUMI(arr, m) == lo(N, m - 1, P)),
                            patterns=[SUMI(arr, m)]))

    return Contract("split_idx", {"Ntotal": T.int, "r": T.int, "indices_or_sections": T.int},
                    requires=requires, ensures=ensures, raises=raises, returns=T.list(T.int),
                    hooks={"div_points": div_points_lemma})


def tiling_lemmas():
    """Facts about lo() that make the slices a tiling of 0..N-1 (pure arithmetic; each is an
    obligation of its own, proved for all N, P, r)."""
    N, P, r = z3.Ints("N P r")
    pre = z3.And(N >= 0, P >= 1)
    return [
        ("lo(0) = 0", z3.Implies(pre, lo(N, z3.IntVal(0), P) == 0)),
        ("lo(P) = N", z3.Implies(pre, lo(N, P, P) == N)),
        ("lo is monotone: lo(r) <= lo(r+1)", z3.Implies(z3.And(pre, 0 <= r, r < P), lo(N, r, P) <= lo(N, r + 1, P))),
        ("slice sizes differ by at most one", z3.Implies(z3.And(pre, 0 <= r, r < P),
                                                         z3.And(lo(N, r + 1, P) - lo(N, r, P) >= N / P,
                                                                lo(N, r + 1, P) - lo(N, r, P) <= N / P + 1))),
    ]


# ------------------------------------------------------------------------ get_unique_indexes (C03)
def get_unique_indexes_contract():
    """Keys of `result` are the distinct values of L, each once (in `result.keys()`), result[v] is AN index holding v,
    match[v] is the position of v among the keys.  (Which index, and the order of the keys, are not promised.)"""
    from pyvc.engine import LoopSpec
    from pyvc.values import Label, VTuple, VRef, HDict

    def dict_of(S, v):
        return S.st.heap[v.addr]

    def inv(S, st):
        i = S.i(S.var("__i"))
        L = S.seq(S.var("L"))
        d = dict_of(S, S.var("result"))
        keys = S.seq(d.keys)
        v = z3.Const("v!gu", Label)
        k, q, q2 = z3.Ints("k!gu q!gu q2!gu")
        return [
            ("every key is a value seen so far, and result[key] points at it",
             z3.ForAll([v], z3.Implies(d.has(v), z3.And(0 <= d.val(v).t, d.val(v).t < i, L.get(d.val(v).t).t == v)))),
            ("every value seen so far is a key", z3.ForAll([k], z3.Implies(z3.And(0 <= k, k < i), d.has(L.get(k).t)))),
            ("the key list holds keys only, without repetition",
             z3.And(keys.len >= 0, z3.ForAll([q], z3.Implies(z3.And(0 <= q, q < keys.len), d.has(keys.get(q).t))),
                    z3.ForAll([q, q2], z3.Implies(z3.And(0 <= q, q < q2, q2 < keys.len), keys.get(q).t != keys.get(q2).t)))),
            ("every key is in the key list (ghost witness: the key's slot)",
             z3.ForAll([v], z3.Implies(d.has(v), z3.And(0 <= slot(S)(v), slot(S)(v) < keys.len, keys.get(slot(S)(v)).t == v)))),
        ]

    GT = T("ghostfn", Label, z3.IntSort())

    def slot(S):
        return S.var("__slot").obj

    def setup(eng, st, args):
        st.env["__slot"] = eng.fresh(GT, "SLOT", st)

    def on_insert(S, st):
        """ghost update after `result[val] = i`: the new key sits in the last slot of the key list"""
        from pyvc.values import VConc
        d = dict_of(S, S.var("result"))
        keys = S.seq(d.keys)
        newkey = S.var("val").t
        old = S.var("__slot").obj
        last = keys.len - 1
        kg, kl = keys.get, keys.len
        valid_old = z3.And(0 <= old(newkey), old(newkey) < kl, kg(old(newkey)).t == newkey)
        g = VConc("ghostfn", lambda q, old=old, newkey=newkey, last=last: z3.If(z3.And(q == newkey, z3.Not(valid_old)), last, old(q)))
        g.gtype = GT
        st.env["__slot"] = g

    def ensures(S, a, res):
        if not (isinstance(res, VTuple) and len(res.items) == 2):
            raise Unsupported("get_unique_indexes no longer returns a pair")
        L = S.seq(a["L"])
        d, m = dict_of(S, res.items[0]), dict_of(S, res.items[1])
        keys = S.seq(d.keys)
        v = z3.Const("v!gu", Label)
        k, q, q2 = z3.Ints("k!gu q!gu q2!gu")
        if "__slot" in S.st.env:
            SL = slot(S)                     # verifying the function: the ghost slot function of the loop
        else:
            SL = z3.Function(__import__("pyvc.values", fromlist=["fresh_name"]).fresh_name("slot"), Label, z3.IntSort())      # at a call site: some witness
        return [
            ("every element of L is a key of result", z3.ForAll([k], z3.Implies(z3.And(0 <= k, k < L.len), d.has(L.get(k).t)))),
            ("result[v] is an index of L holding v", z3.ForAll([v], z3.Implies(d.has(v), z3.And(0 <= d.val(v).t, d.val(v).t < L.len, L.get(d.val(v).t).t == v)))),
            ("keys are pairwise distinct", z3.ForAll([q, q2], z3.Implies(z3.And(0 <= q, q < q2, q2 < keys.len), keys.get(q).t != keys.get(q2).t))),
            ("match[v] is the position of v among the keys, for every key",
             z3.ForAll([q], z3.Implies(z3.And(0 <= q, q < keys.len), z3.And(m.has(keys.get(q).t), m.val(keys.get(q).t).t == q)))),
            ("match is defined exactly on the keys", z3.ForAll([v], m.has(v) == d.has(v))),
            ("every key occurs in the key list (witness: its slot)",
             z3.ForAll([v], z3.Implies(d.has(v), z3.And(0 <= SL(v), SL(v) < keys.len, keys.get(SL(v)).t == v)))),
        ]

    ls = LoopSpec(inv)
    ls.ghost = ["__slot"]
    return Contract("get_unique_indexes", {"L": T.list(T.label)}, ensures=ensures, raises=lambda S, a, e: z3.BoolVal(False),
                    loops={0: ls}, setup=setup, hooks={"result[]": on_insert})


def get_match_indexes_contract():
    """result[k] is an index of `a` holding b[k], for every k (requires: every element of b occurs in a)."""
    from pyvc.engine import LoopSpec
    from pyvc.values import Label
    W = z3.Function("W.occ", z3.IntSort(), z3.IntSort())

    def requires(S, a):
        A, B = S.seq(a["a"]), S.seq(a["b"])
        k = z3.Int("k!rq")
        return [("every element of b occurs in a", z3.ForAll([k], z3.Implies(z3.And(0 <= k, k < B.len), z3.And(0 <= W(k), W(k) < A.len, A.get(W(k)).t == B.get(k).t))))]

    def inv(S, st):
        i = S.i(S.var("__i"))
        A = S.seq(S.var("a"))
        d = S.st.heap[S.var("result").addr]
        bb = S.st.heap[S.var("bb").addr]
        v = z3.Const("v!gm", Label)
        k = z3.Int("k!gm")
        return [("result[key] points at an occurrence of key among the first i entries",
                 z3.ForAll([v], z3.Implies(d.has(v), z3.And(0 <= d.val(v).t, d.val(v).t < i, A.get(d.val(v).t).t == v)))),
                ("every wanted value among the first i entries has an index", z3.ForAll([k], z3.Implies(z3.And(0 <= k, k < i, bb.has(A.get(k).t)), d.has(A.get(k).t))))]

    def ensures(S, a, res):
        A, B = S.seq(a["a"]), S.seq(a["b"])
        R = S.seq(res)
        k = z3.Int("k!en")
        return [("one index per element of b, each pointing at an equal element of a",
                 z3.And(R.len == B.len, z3.ForAll([k], z3.Implies(z3.And(0 <= k, k < B.len), z3.And(
                     0 <= R.get(k).t, R.get(k).t < A.len, A.get(R.get(k).t).t == B.get(k).t)))))]

    return Contract("get_match_indexes", {"a": T.list(T.label), "b": T.list(T.label)}, requires=requires, ensures=ensures,
                    raises=lambda S, a, e: z3.BoolVal(False), loops={0: LoopSpec(inv)})


# ------------------------------------------------------------------------ duplicate_checker.main: shuffle and re-index (C03)
def shuffle_region(fnode):
    """from `uniq, match = utils.get_unique_indexes(all_fun)` to the statement that builds match_idx"""
    import ast
    body = fnode.body
    start = None
    for k, s in enumerate(body):
        if isinstance(s, ast.Assign) and isinstance(s.value, ast.Call) and getattr(s.value.func, "attr", None) == "get_unique_indexes":
            start = k
            break
    if start is None:
        return None
    out = [body[start]]
    for s in body[start + 1:]:
        out.append(s)
        if isinstance(s, ast.If):
            # keep the statements of the `if rank == 0:` block up to the one that assigns match_idx
            for j, b in enumerate(s.body):
                if isinstance(b, ast.Assign) and getattr(b.targets[0], "id", None) == "match_idx":
                    import copy
                    s2 = copy.copy(s)
                    s2.body = s.body[:j + 1]
                    s2.orelse = []
                    out[-1] = s2
                    return out
            return None
    return None


def shuffle_contract():
    """After the unique functions have been shuffled, every function still points at the unique entry that holds its own (canonical) string:
         uniq_fun[match_idx[f]] == all_fun[f]  for every f,   0 <= match_idx[f] < number of unique entries,
       and the shuffled unique list is a permutation of the distinct strings (pairwise distinct, same length)."""
    from pyvc.values import Label, VLabel, HDict, VNone

    def mk_all(eng, st):
        return eng.fresh(T.list(T.label), "all_fun", st)

    def setup(eng, st, args):
        c = get_unique_indexes_contract()
        c.returns = lambda e, s, a: VTuple([e.fresh(T("dict", T.label, T.int, True), "uniq", s), e.fresh(T("dict", T.label, T.int, False), "match", s)])
        eng.contracts["utils.get_unique_indexes"] = c
        st.env["rank"] = VInt(0)
        st.env["seed"] = VInt(z3.Int("seed"))
        eng.models["np.random.seed"] = lambda e, s, a, k, n: VNone()

        def shuffle(e, s, a, k, node):
            # in place: a permutation of the entries (A-ext)
            o = s.heap[a[0].addr]
            nm = __import__("pyvc.values", fromlist=["fresh_name"]).fresh_name("shuf")
            P = z3.Function(nm, z3.IntSort(), z3.IntSort())
            PI = z3.Function(nm + ".inv", z3.IntSort(), z3.IntSort())
            q = z3.Int("q!sh")
            n = o.len
            e.axioms.append(z3.ForAll([q], z3.Implies(z3.And(0 <= q, q < n), z3.And(0 <= P(q), P(q) < n, PI(P(q)) == q)), patterns=[P(q)]))
            e.axioms.append(z3.ForAll([q], z3.Implies(z3.And(0 <= q, q < n), z3.And(0 <= PI(q), PI(q) < n, P(PI(q)) == q)), patterns=[PI(q)]))
            g = o.get
            s.heap[a[0].addr] = HSeq(n, lambda kk: g(P(kk)), numpy=o.numpy, etype=o.etype, note=("shuffled", P, PI))
            return VNone()
        eng.models["np.random.shuffle"] = shuffle
        from pyvc.models import m_np_arange
        eng.models["np.arange"] = m_np_arange

    def ensures(S, a, res):
        st = S.st
        AF = S.seq(a["all_fun"])
        UF, MI = S.seq(S.var("uniq_fun")), S.seq(S.var("match_idx"))
        f = z3.Int(__import__("pyvc.values", fromlist=["fresh_name"]).fresh_name("f!sk"))
        q1, q2 = z3.Int("q1!sk2"), z3.Int("q2!sk2")
        return [("one match per function", MI.len == AF.len),
                ("every function points at the unique entry that holds its own string", z3.Implies(z3.And(0 <= f, f < AF.len), z3.And(0 <= MI.get(f).t, MI.get(f).t < UF.len, UF.get(MI.get(f).t).t == AF.get(f).t))),
                ("the shuffled unique list has no repeated entry", z3.Implies(z3.And(0 <= q1, q1 < q2, q2 < UF.len), UF.get(q1).t != UF.get(q2).t))]

    def inv_lemma(S, st, node=None):
        """after `inv = {i[j]: j ...}`: inv is defined on every m in [0, n) and i[inv[m]] == m (i is a permutation of 0..n-1: Skolem m, then generalised)"""
        io = S.seq(S.var("i"))
        if not (io.note and io.note[0] == "shuffled"):
            raise Unsupported("i is not a shuffled index array when inv is built")
        _, P, PI = io.note
        d = st.heap[S.var("inv").addr]
        n = io.len
        fresh_name = __import__("pyvc.values", fromlist=["fresh_name"]).fresh_name
        m0 = z3.Int(fresh_name("m!sk"))
        inst = z3.Implies(z3.And(0 <= m0, m0 < n), z3.And(0 <= PI(m0), PI(m0) < n, P(PI(m0)) == m0))     # instance of the permutation axiom
        goal = lambda mm: z3.Implies(z3.And(0 <= mm, mm < n), z3.And(d.has(mm), 0 <= d.val(mm).t, d.val(mm).t < n, io.get(d.val(mm).t).t == mm))
        S.eng.oblige(st, "lemma: inv is the inverse permutation: defined on 0..n-1 with i[inv[m]] = m", z3.Implies(inst, goal(m0)), "lemma", node)
        mq = z3.Int("m!inv")
        st.assume(z3.ForAll([mq], goal(mq)))

    c = Contract("main", {"all_fun": mk_all}, ensures=ensures, setup=setup, region=shuffle_region, raises=lambda S, a, e: z3.BoolVal(False),
                 hooks={"inv": inv_lemma})
    c.region_name = "shuffle: unique list permuted, matches re-indexed"
    return c
