"""Sidecar contracts for esr/generation/utils.py (real file, untouched)."""
import z3
from pyvc.engine import Contract, LoopSpec
from pyvc.values import T, VInt, VTuple, Unsupported


def lo(N, r, P):
    """Start of rank r's slice: r*q + min(r, e) with q, e = divmod(N, P)."""
    q, e = N / P, N % P          # P > 0: SMT div/mod agree with Python's
    return r * q + z3.If(r < e, r, e)


def split_idx_contract():
    def requires(S, a):
        N, r, P = a["Ntotal"].t, a["r"].t, a["indices_or_sections"].t
        return [("N >= 0", N >= 0), ("P >= 1", P >= 1), ("0 <= r < P", z3.And(0 <= r, r < P))]

    def ensures(S, a, res):
        N, r, P = a["Ntotal"].t, a["r"].t, a["indices_or_sections"].t
        L, H = lo(N, r, P), lo(N, r + 1, P)
        n = S.len(res)
        empty = z3.And(n == 0, L >= H)
        pair = z3.And(n == 2, S.i(res, 0) == L, S.i(res, 1) == H - 1)
        return [("result is [] for an empty slice or [lo(r), lo(r+1)-1]", z3.Or(empty, pair)),
                ("a non-empty slice is never reported empty", z3.Implies(L < H, pair))]

    def raises(S, a, exc):
        return z3.BoolVal(False)

    def div_points_lemma(S, st):
        """Closed form of the prefix sums: div_points[m] = lo(m) for 0 <= m <= P, by induction
        on m (base and step are quantifier-free obligations; the step unfolds the sum once)."""
        from pyvc.models import SUMI, sum_unfold
        a = S.eng.args0
        N, P = a["Ntotal"].t, a["indices_or_sections"].t
        note = S.note(S.var("div_points"))
        if not note or note[0] != "cumsum":
            raise Unsupported("div_points is not a cumulative sum any more")
        arr = note[1]
        n = S.len(S.var("div_points"))
        S.prove("div_points has P+1 entries", n == P + 1)
        S.prove("prefix-sum lemma, base: div_points[0] = lo(0)",
                z3.Implies(sum_unfold(arr, z3.IntVal(0), SUMI), SUMI(arr, z3.IntVal(1)) == lo(N, z3.IntVal(0), P)))
        m = z3.Int("m!ind")
        hyp = SUMI(arr, m + 1) == lo(N, m, P)
        step = z3.Implies(z3.And(0 <= m, m < P, hyp, sum_unfold(arr, m + 1, SUMI)), SUMI(arr, m + 2) == lo(N, m + 1, P))
        S.eng.oblige(st, "prefix-sum lemma, step: div_points[m] = lo(m) => div_points[m+1] = lo(m+1)",
                     z3.ForAll([m], step), "lemma", None, "induction step")
        st.assume(sum_unfold(arr, z3.IntVal(0), SUMI))
        st.assume(z3.ForAll([m], z3.Implies(z3.And(1 <= m, m <= P + 1), SUMI(arr, m) == lo(N, m - 1, P)),
                            patterns=[SUMI(arr, m)]))

    return Contract("split_idx", {"Ntotal": T.int, "r": T.int, "indices_or_sections": T.int},
                    requires=requires, ensures=ensures, raises=raises, returns=T.list(T.int),
                    hooks={"div_points": div_points_lemma})


def tiling_lemmas():
    """Facts about lo() that make the slices a tiling of 0..N-1 (pure arithmetic; each is an
    obligation of its own, proved for all N, P, r)."""
    N, P, r = z3.Ints("N P r")
    pre = z3.And(N >= 0, P >= 1)
    return [
        ("lo(0) = 0", z3.Implies(pre, lo(N, z3.IntVal(0), P) == 0)),
        ("lo(P) = N", z3.Implies(pre, lo(N, P, P) == N)),
        ("lo is monotone: lo(r) <= lo(r+1)", z3.Implies(z3.And(pre, 0 <= r, r < P), lo(N, r, P) <= lo(N, r + 1, P))),
        ("slice sizes differ by at most one", z3.Implies(z3.And(pre, 0 <= r, r < P),
                                                         z3.And(lo(N, r + 1, P) - lo(N, r, P) >= N / P,
                                                                lo(N, r + 1, P) - lo(N, r, P) <= N / P + 1))),
    ]


# ------------------------------------------------------------------------ get_unique_indexes (C03)
def get_unique_indexes_contract():
    """Keys of `result` are the distinct values of L, each once (in `result.keys()`), result[v] is AN index holding v,
    match[v] is the position of v among the keys.  (Which index, and the order of the keys, are not promised.)"""
    from pyvc.engine import LoopSpec
    from pyvc.values import Label, VTuple, VRef, HDict

    def dict_of(S, v):
        return S.st.heap[v.addr]

    def inv(S, st):
        i = S.i(S.var("__i"))
        L = S.seq(S.var("L"))
        d = dict_of(S, S.var("result"))
        keys = S.seq(d.keys)
        v = z3.Const("v!gu", Label)
        k, q, q2 = z3.Ints("k!gu q!gu q2!gu")
        return [
            ("every key is a value seen so far, and result[key] points at it",
             z3.ForAll([v], z3.Implies(d.has(v), z3.And(0 <= d.val(v).t, d.val(v).t < i, L.get(d.val(v).t).t == v)))),
            ("every value seen so far is a key", z3.ForAll([k], z3.Implies(z3.And(0 <= k, k < i), d.has(L.get(k).t)))),
            ("the key list holds keys only, without repetition",
             z3.And(keys.len >= 0, z3.ForAll([q], z3.Implies(z3.And(0 <= q, q < keys.len), d.has(keys.get(q).t))),
                    z3.ForAll([q, q2], z3.Implies(z3.And(0 <= q, q < q2, q2 < keys.len), keys.get(q).t != keys.get(q2).t)))),
            ("every key is in the key list (ghost witness: the key's slot)",
             z3.ForAll([v], z3.Implies(d.has(v), z3.And(0 <= slot(S)(v), slot(S)(v) < keys.len, keys.get(slot(S)(v)).t == v)))),
        ]

    GT = T("ghostfn", Label, z3.IntSort())

    def slot(S):
        return S.var("__slot").obj

    def setup(eng, st, args):
        st.env["__slot"] = eng.fresh(GT, "SLOT", st)

    def on_insert(S, st):
        """ghost update after `result[val] = i`: the new key sits in the last slot of the key list"""
        from pyvc.values import VConc
        d = dict_of(S, S.var("result"))
        keys = S.seq(d.keys)
        newkey = S.var("val").t
        old = S.var("__slot").obj
        last = keys.len - 1
        kg, kl = keys.get, keys.len
        valid_old = z3.And(0 <= old(newkey), old(newkey) < kl, kg(old(newkey)).t == newkey)
        g = VConc("ghostfn", lambda q, old=old, newkey=newkey, last=last: z3.If(z3.And(q == newkey, z3.Not(valid_old)), last, old(q)))
        g.gtype = GT
        st.env["__slot"] = g

    def ensures(S, a, res):
        if not (isinstance(res, VTuple) and len(res.items) == 2):
            raise Unsupported("get_unique_indexes no longer returns a pair")
        L = S.seq(a["L"])
        d, m = dict_of(S, res.items[0]), dict_of(S, res.items[1])
        keys = S.seq(d.keys)
        v = z3.Const("v!gu", Label)
        k, q, q2 = z3.Ints("k!gu q!gu q2!gu")
        return [
            ("every element of L is a key of result", z3.ForAll([k], z3.Implies(z3.And(0 <= k, k < L.len), d.has(L.get(k).t)))),
            ("result[v] is an index of L holding v", z3.ForAll([v], z3.Implies(d.has(v), z3.And(0 <= d.val(v).t, d.val(v).t < L.len, L.get(d.val(v).t).t == v)))),
            ("keys are pairwise distinct", z3.ForAll([q, q2], z3.Implies(z3.And(0 <= q, q < q2, q2 < keys.len), keys.get(q).t != keys.get(q2).t))),
            ("match[v] is the position of v among the keys, for every key",
             z3.ForAll([q], z3.Implies(z3.And(0 <= q, q < keys.len), z3.And(m.has(keys.get(q).t), m.val(keys.get(q).t).t == q)))),
            ("match is defined exactly on the keys", z3.ForAll([v], m.has(v) == d.has(v))),
        ]

    ls = LoopSpec(inv)
    ls.ghost = ["__slot"]
    return Contract("get_unique_indexes", {"L": T.list(T.label)}, ensures=ensures, raises=lambda S, a, e: z3.BoolVal(False),
                    loops={0: ls}, setup=setup, hooks={"result[]": on_insert})


def get_match_indexes_contract():
    """result[k] is an index of `a` holding b[k], for every k (requires: every element of b occurs in a)."""
    from pyvc.engine import LoopSpec
    from pyvc.values import Label
    W = z3.Function("W.occ", z3.IntSort(), z3.IntSort())

    def requires(S, a):
        A, B = S.seq(a["a"]), S.seq(a["b"])
        k = z3.Int("k!rq")
        return [("every element of b occurs in a", z3.ForAll([k], z3.Implies(z3.And(0 <= k, k < B.len), z3.And(0 <= W(k), W(k) < A.len, A.get(W(k)).t == B.get(k).t))))]

    def inv(S, st):
        i = S.i(S.var("__i"))
        A = S.seq(S.var("a"))
        d = S.st.heap[S.var("result").addr]
        bb = S.st.heap[S.var("bb").addr]
        v = z3.Const("v!gm", Label)
        k = z3.Int("k!gm")
        return [("result[key] points at an occurrence of key among the first i entries",
                 z3.ForAll([v], z3.Implies(d.has(v), z3.And(0 <= d.val(v).t, d.val(v).t < i, A.get(d.val(v).t).t == v)))),
                ("every wanted value among the first i entries has an index", z3.ForAll([k], z3.Implies(z3.And(0 <= k, k < i, bb.has(A.get(k).t)), d.has(A.get(k).t))))]

    def ensures(S, a, res):
        A, B = S.seq(a["a"]), S.seq(a["b"])
        R = S.seq(res)
        k = z3.Int("k!en")
        return [("one index per element of b, each pointing at an equal element of a",
                 z3.And(R.len == B.len, z3.ForAll([k], z3.Implies(z3.And(0 <= k, k < B.len), z3.And(
                     0 <= R.get(k).t, R.get(k).t < A.len, A.get(R.get(k).t).t == B.get(k).t)))))]

    return Contract("get_match_indexes", {"a": T.list(T.label), "b": T.list(T.label)}, requires=requires, ensures=ensures,
                    raises=lambda S, a, e: z3.BoolVal(False), loops={0: LoopSpec(inv)})
