"""Sidecar contracts for esr/generation/simplifier.py."""
import ast
import z3
from pyvc.engine import Contract, LoopSpec
from pyvc.values import T, VInt, VLabel, VNone, VRef, VConc, VMaybeNone, HSeq, Label, Unsupported, fresh_name
from pyvc import models as M

Mon = z3.DeclareSort("Mon")                       # parameter maps under composition
MUL = z3.Function("compose", Mon, Mon, Mon)
E = z3.Const("identity", Mon)
TOK = z3.Function("map_of", Label, Mon)           # the map a recorded substitution string denotes


def monoid_axioms():
    a, b, c = z3.Consts("a!m b!m c!m", Mon)
    return [z3.ForAll([a, b, c], MUL(MUL(a, b), c) == MUL(a, MUL(b, c)), patterns=[MUL(MUL(a, b), c)]),
            z3.ForAll([a], z3.And(MUL(E, a) == a, MUL(a, E) == a), patterns=[MUL(E, a), MUL(a, E)])]


def simplify_inv_subs_contract():
    """Cancelling never changes the composition: with F(k) the composition of the first k recorded maps (left fold in the monoid
    of parameter maps, any associative composition with identity) and the result being the sub-list of the entries whose index
    is not deleted, the conditional fold H over the kept entries (H(0) = id, H(k+1) = H(k) if k is deleted else H(k)∘map(s_k))
    ends at H(n) = F(n).  By the fusion fact of the lemma library (the fold of a filtered list is the conditional fold of the
    list) H(n) is the composition of the returned chain.  Deleted entries are self-inverse by precondition on all_dup
    (each element composed with itself is the identity: established by get_all_dup, bounded-checked), so an unrecoverable
    'nan' (not in all_dup) is never deleted.  Result None iff nothing is kept."""
    GT = T("ghostfn", z3.IntSort(), Mon)
    F = z3.Function("F.prefix", z3.IntSort(), Mon)       # F(k) = composition of s[0..k)

    def unfoldF(s, k):
        return F(k + 1) == MUL(F(k), TOK(s.get(k).t))

    def requires(S, a):
        dup = S.seq(a["all_dup"])
        q = z3.Int("q!rq")
        return [("every element of all_dup is self-inverse", z3.ForAll([q], z3.Implies(z3.And(0 <= q, q < dup.len),
                                                                                        MUL(TOK(dup.get(q).t), TOK(dup.get(q).t)) == E)))]

    def setup(eng, st, args):
        eng.axioms.extend(monoid_axioms())
        eng.axioms.append(F(z3.IntVal(0)) == E)
        st.env["__kf"] = eng.fresh(GT, "KF", st)
        st.assume(st.env["__kf"].obj(z3.IntVal(0)) == E)

    def kf(S):
        return S.var("__kf").obj

    def mem(S, k):
        return S.eng.contains(S.var("del_idx"), VInt(k), S.st, None)

    def inv(S, st):
        if "i" not in st.env or "del_idx" not in st.env:
            raise Unsupported("the loop no longer uses an explicit index i / the list del_idx")
        s = S.seq(S.var("inv_subs"))
        n = s.len
        i = S.i(S.var("i"))
        dl = S.seq(S.var("del_idx"))
        dup = S.var("all_dup")
        KF = kf(S)
        k, q = z3.Int("k!si"), z3.Int("q!si")
        # definitional unfoldings of F at the positions this iteration touches (instances of F's recursive definition)
        st.assume(z3.Implies(z3.And(0 <= i, i < n), unfoldF(s, i)))
        st.assume(z3.Implies(z3.And(0 <= i, i + 1 < n), unfoldF(s, i + 1)))
        return [
            ("0 <= i <= n", z3.And(0 <= i, i <= n)),
            ("deleted indices are below i, and their entries are self-inverse maps equal to their neighbour",
             z3.ForAll([q], z3.Implies(z3.And(0 <= q, q < dl.len), z3.And(0 <= dl.get(q).t, dl.get(q).t < i,
                                                                          S.eng.contains(dup, s.get(dl.get(q).t), st, None))))),
            ("KF is the conditional fold of the kept entries on [0, i)",
             z3.And(KF(z3.IntVal(0)) == E,
                    z3.ForAll([k], z3.Implies(z3.And(0 <= k, k < i), KF(k + 1) == z3.If(mem(S, k), KF(k), MUL(KF(k), TOK(s.get(k).t))))))),
            ("the kept entries compose to the same map as the original prefix: KF(i) = F(i)", KF(i) == F(i)),
        ]

    def after_i(S, st, node):
        """ghost update after `i += c`: extend KF over the positions just passed, by the conditional-fold step"""
        if not isinstance(node, ast.AugAssign):
            return          # the initialisation i = 0
        c = node.value.value if isinstance(node.value, ast.Constant) else None
        if c not in (1, 2):
            raise Unsupported("unexpected index increment")
        s = S.seq(S.var("inv_subs"))
        inew = S.i(S.var("i"))
        old = inew - c
        KF = kf(S)
        m0, m1 = mem(S, old), mem(S, old + 1)
        v1 = z3.If(m0, KF(old), MUL(KF(old), TOK(s.get(old).t)))
        v2 = z3.If(m1, v1, MUL(v1, TOK(s.get(old + 1).t)))
        g = VConc("ghostfn", lambda q, KF=KF, old=old, v1=v1, v2=v2: z3.If(q == old + 1, v1, z3.If(q == old + 2, v2, KF(q))))
        g.gtype = GT
        st.env["__kf"] = g

    def ensures(S, a, res):
        eng, st = S.eng, S.st
        s0 = a["inv_subs"]
        if isinstance(s0, VMaybeNone):
            s0v = s0.val
        else:
            s0v = s0
        s = st.heap[s0v.addr]
        n = s.len
        out = []
        if "del_idx" not in st.env:
            # early return: None or empty input is returned unchanged
            return [("None or an empty chain is returned as it is", z3.BoolVal(res is a["inv_subs"] or (isinstance(res, (VNone, VMaybeNone)) and isinstance(a["inv_subs"], (VNone, VMaybeNone)))))]
        i = S.i(S.var("i"))
        KF = kf(S)
        lst = st.heap[S.var("new_inv").addr] if isinstance(S.var("new_inv"), VRef) else None
        kept = st.ghost.get("kept_list")
        if kept is None:
            raise Unsupported("the filtered list was not recorded")
        note = kept.note
        if not (note and note[0] == "filter"):
            raise Unsupported("new_inv is not a filtered comprehension any more")
        ma, nn = note[1], note[2]
        k = z3.Int("k!en")
        st.assume(z3.Implies(z3.And(0 <= i, i < n), unfoldF(s, i)))
        # H = KF extended over the last position (i is n-1 or n at exit)
        last = z3.If(mem(S, n - 1), KF(n - 1), MUL(KF(n - 1), TOK(s.get(n - 1).t)))
        H = lambda q: z3.If(z3.And(q == n, i == n - 1), last, KF(q))
        out.append(("the kept entries are those whose index is not deleted (mask of the returned sub-list)",
                    z3.ForAll([k], z3.Implies(z3.And(0 <= k, k < n), z3.Select(ma, k) == z3.Not(mem(S, k))))))
        out.append(("H is the conditional fold of the kept entries over the whole chain",
                    z3.And(H(z3.IntVal(0)) == E, z3.ForAll([k], z3.Implies(z3.And(0 <= k, k < n),
                                                                             H(k + 1) == z3.If(z3.Select(ma, k), MUL(H(k), TOK(s.get(k).t)), H(k)))))))
        out.append(("cancellation preserves the composition: H(n) = F(n)", H(n) == F(n)))
        nonempty = M.CNT(ma, nn) > 0
        isnone = z3.BoolVal(True) if isinstance(res, VNone) else (res.isnone if isinstance(res, VMaybeNone) else z3.BoolVal(False))
        out.append(("the result is None exactly when nothing is kept", isnone == z3.Not(nonempty)))
        return out

    def hook_newinv(S, st):
        v = S.var("new_inv")
        if isinstance(v, VRef) and "kept_list" not in st.ghost:
            st.ghost["kept_list"] = st.heap[v.addr]

    ls = LoopSpec(inv, havoc_types={"del_idx": T.list(T.int)})
    ls.ghost = ["__kf"]
    return Contract("simplify_inv_subs", {"inv_subs": T.list(T.label), "all_dup": T.list(T.label)}, requires=requires, ensures=ensures,
                    setup=setup, loops={0: ls}, hooks={"i": after_i, "new_inv": hook_newinv}, raises=lambda S, a, e: z3.BoolVal(False))


def involution_lemmas():
    """The three template families emitted by get_all_dup are self-inverse as maps on parameter vectors (pure real arithmetic):
    sign flip everywhere, reciprocal where defined (a != 0), simultaneous swap."""
    a, b = z3.Reals("a b")
    neg = lambda x: -x
    rec = lambda x: 1 / x
    return [("sign flip twice is the identity: -(-a) = a", neg(neg(a)) == a),
            ("reciprocal twice is the identity where defined: 1/(1/a) = a for a != 0", z3.Implies(a != 0, rec(rec(a)) == a)),
            ("a simultaneous swap twice is the identity: swap(swap(a, b)) = (a, b)",
             z3.And(*[x == y for x, y in zip((lambda p: (p[1], p[0]))((lambda p: (p[1], p[0]))((a, b))), (a, b))]))]


# ------------------------------------------------------------ layout of the flattened Hessian: reader (C05)
def _fish_reader_region(fnode):
    """from `fish = np.zeros((n, n))` to the last plain assignment to `fish` before the symbolic part of convert_params"""
    import ast as _a
    start = end = None
    for k, s in enumerate(fnode.body):
        if isinstance(s, _a.Assign) and len(s.targets) == 1 and getattr(s.targets[0], "id", None) == "fish":
            if start is None:
                start = k
            end = k
        elif isinstance(s, _a.Assign) and isinstance(s.targets[0], _a.Subscript) and getattr(s.targets[0].value, "id", None) == "fish":
            end = k
        elif start is not None and any(getattr(t, "id", None) == "param_list" for t in getattr(s, "targets", [])):
            break
    if start is None:
        return None
    return fnode.body[start:end + 1]


def fish_reader_contract():
    """simplifier.convert_params rebuilds the symmetric matrix from the flattened upper triangle it is given:
         fish[r, c] = fish[c, r] = fish_meas[TRIST(n, r) + c - r]   for 0 <= r <= c < max_param   (max_param = number of parameters handed in)."""
    import z3 as _z
    from pyvc.lemmas import TRIST, trist_axioms
    from pyvc.values import T as T_, VInt as VInt_, H2D, as_float, fsame
    N, K = _z.Int("n"), _z.Int("max_param")

    def mk_fm(eng, st):
        v = eng.fresh(T_.arr(T_.float), "fish_meas", st)
        st.heap[v.addr].len = N * (N + 1) / 2
        return v

    def setup(eng, st, args):
        from pyvc import models_np2
        models_np2.install(eng)
        st.env["n"], st.env["max_param"] = VInt_(N), VInt_(K)
        eng.axioms.extend(trist_axioms(N))
        eng.axioms.append((N * (N + 1)) % 2 == 0)

    def requires(S, a):
        return [("1 <= max_param <= n", _z.And(1 <= K, K <= N))]

    def ensures(S, a, res):
        f = S.st.heap[S.var("fish").addr]
        if not isinstance(f, H2D):
            return [("fish is a matrix", _z.BoolVal(False))]
        fm = S.seq(a["fish_meas"])
        r, c = _z.Int(fresh_name("r!sk")), _z.Int(fresh_name("c!sk"))
        lo, hi = _z.If(r <= c, r, c), _z.If(r <= c, c, r)
        return [("fish is max_param x max_param", _z.And(f.rows == K, f.cols == K)),
                ("fish[r, c] = fish[c, r] = fish_meas[TRIST(n, min) + max - min]: the symmetric matrix whose upper triangle was flattened row by row",
                 _z.Implies(_z.And(0 <= r, r < K, 0 <= c, c < K), fsame(as_float(f.get(r, c)), as_float(fm.get(TRIST(N, lo) + hi - lo)))))]

    c = Contract("convert_params", {"fish_meas": mk_fm}, requires=requires, ensures=ensures, setup=setup, region=_fish_reader_region,
                 raises=lambda S, a, e: _z.BoolVal(False))
    c.region_name = "Hessian layout reader"
    return c


# ------------------------------------------------------------ get_max_param / count_params (C08, C16)
SUBSTR = z3.Function("str.contains", Label, Label, z3.BoolSort())


def _has(eng, f, k):
    """the parameter name a<k> occurs in the function string f ('a%i' % k in f; substring test, uninterpreted)"""
    return SUBSTR(f, eng.label_fn("fmt:a%i", z3.IntSort())(k))


def get_max_param_contract():
    """get_max_param(all_fun): the result m is >= 0 and covers every function whose parameters are numbered without gaps: if a function contains
    a0 .. a(k-1) then k <= m  (so ['a%i' % j for j in range(m)] contains every parameter of such a function).  Termination is not proved
    (a string cannot contain infinitely many names; A-term)."""
    def inv(S, st):
        eng = S.eng
        mp = S.var("max_param").t
        AF = S.seq(eng.args0["all_fun"])
        p, j = z3.Int("p!mp"), z3.Int("j!mp")
        w = S.var("with_ai")
        out = [("max_param >= -1", mp >= -1)]
        fp = AF.get(p)
        mem = eng.contains(w, fp, st, None)
        out.append(("every function that contains a0 .. a<max_param> is still in with_ai",
                    z3.ForAll([p], z3.Implies(z3.And(0 <= p, p < AF.len, z3.ForAll([j], z3.Implies(z3.And(0 <= j, j <= mp), _has(eng, fp.t, j)))), mem))))
        return out

    def ensures(S, a, res):
        eng = S.eng
        AF = S.seq(a["all_fun"])
        p, k = z3.Int(fresh_name("p!sk")), z3.Int(fresh_name("k!sk"))
        j = z3.Int("j!en")
        return [("the result is non-negative", res.t >= 0),
                ("a function that contains a0 .. a(k-1) has k <= result: the parameter list built from the result covers it",
                 z3.Implies(z3.And(0 <= p, p < AF.len, k >= 0, z3.ForAll([j], z3.Implies(z3.And(0 <= j, j < k), _has(eng, AF.get(p).t, j)))), k <= res.t))]

    def setup(eng, st, args):
        st.env["rank"] = VInt(z3.Int("rank"))

    return Contract("get_max_param", {"all_fun": T.list(T.label), "verbose": (T("conc", __import__("pyvc.values", fromlist=["VBool"]).VBool(False)),)},
                    ensures=ensures, setup=setup, loops={0: LoopSpec(inv, havoc_types={"with_ai": T.list(T.label), "max_param": T.int})},
                    raises=lambda S, a, e: z3.BoolVal(False))


def count_params_contract():
    """count_params(all_fun, max_param): nparam[i] = 1 + the largest j < max_param such that a<j> occurs in function i, and 0 if none does."""
    MP = z3.Int("max_param")

    def spec(S, fi, val):
        eng = S.eng
        j = z3.Int("j!cp")
        return z3.Or(z3.And(val == 0, z3.ForAll([j], z3.Implies(z3.And(0 <= j, j < MP), z3.Not(_has(eng, fi, j))))),
                     z3.And(1 <= val, val <= MP, _has(eng, fi, val - 1), z3.ForAll([j], z3.Implies(z3.And(val <= j, j < MP), z3.Not(_has(eng, fi, j))))))

    def outer(S, st):
        i = S.i(S.var("__i"))
        AF, NPM = S.seq(S.eng.args0["all_fun"]), S.seq(S.var("nparam"))
        q = z3.Int("q!cp")
        return [("one counter per function", NPM.len == AF.len),
                ("the counters of the functions already visited are right, the others are still 0",
                 z3.ForAll([q], z3.Implies(z3.And(0 <= q, q < AF.len), z3.If(q < i, spec(S, AF.get(q).t, NPM.get(q).t), NPM.get(q).t == 0))))]

    def inner(S, st):
        eng = S.eng
        k = S.i(S.var("__i"))               # iterations done: j has taken the values MP-1 .. MP-k
        i = S.var("i").t
        AF, NPM = S.seq(eng.args0["all_fun"]), S.seq(S.var("nparam"))
        q, jj = z3.Int("q!ci"), z3.Int("j!ci")
        return [("one counter per function", NPM.len == AF.len),
                ("no parameter name above the current one occurs in function i, and its counter is still 0",
                 z3.And(NPM.get(i).t == 0, z3.ForAll([jj], z3.Implies(z3.And(MP - k <= jj, jj < MP), z3.Not(_has(eng, AF.get(i).t, jj)))))),
                ("the other counters are as the outer loop left them",
                 z3.ForAll([q], z3.Implies(z3.And(0 <= q, q < AF.len, q != i), z3.If(q < i, spec(S, AF.get(q).t, NPM.get(q).t), NPM.get(q).t == 0))))]

    def requires(S, a):
        return [("max_param >= 0", a["max_param"].t >= 0)]

    def ensures(S, a, res):
        AF, NPM = S.seq(a["all_fun"]), S.seq(res)
        q = z3.Int(fresh_name("q!sk"))
        return [("one counter per function", NPM.len == AF.len),
                ("nparam[i] = 1 + the largest j < max_param with a<j> in function i (0 if none)", z3.Implies(z3.And(0 <= q, q < AF.len), spec(S, AF.get(q).t, NPM.get(q).t)))]

    def loop_select(node):
        import ast as _a
        if isinstance(node.target, _a.Name) and node.target.id == "i":
            return LoopSpec(outer, havoc_types={"j": T.int})
        return LoopSpec(inner)

    c = Contract("count_params", {"all_fun": T.list(T.label), "max_param": lambda e, s: VInt(MP)}, requires=requires, ensures=ensures,
                 raises=lambda S, a, e: z3.BoolVal(False))
    c.loop_select = loop_select
    return c
