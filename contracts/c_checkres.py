"""Sidecar contracts for the rank-0 bookkeeping at the end of simplifier.check_results (C03, C15): the functions whose recorded
parameter map could not be verified (`to_change`, rows [index in all_equations, function string]) are un-merged -- each becomes
(or re-uses) a unique function of its own, its map becomes the identity, its match points at its own string.

Three regions of the real function, each verified on its own, and one composition lemma over their postconditions:

  R1  nuniq = len(uniq_fun) ... new_uniq_fun = list(new_uniq.keys())      which strings are appended, where each one is found
  R2  for r in to_change: inv_subs[r[0]] = ""                            the maps of the un-merged functions become the identity
  R3  for i in range(len(to_change)): matches[...] = ...                  the matches of the un-merged functions
  L   U' = uniq_fun ++ new_uniq_fun is duplicate-free and U'[matches'[f]] is f's own string, for every un-merged function f

The file traffic between the regions (unique_equations rewritten as uniq_fun followed by new_uniq_fun, inv_subs / matches read and
written back) is not in these regions; the writers are loops of the form covered by the C08 writer contract, the round trip through
the files is part of the bounded stand-in."""
import ast as _ast
import z3
from pyvc.engine import Contract, LoopSpec
from pyvc.values import T, VInt, VLabel, VStr, VTuple, VRef, HSeq, HDict, Label, Unsupported, fresh_name

TCI = z3.Function("TC.idx", z3.IntSort(), z3.IntSort())       # to_change[i][0]
TCS = z3.Function("TC.str", z3.IntSort(), Label)              # to_change[i][1]
NTC = z3.Int("len_to_change")


def _rank0_body(fnode):
    """body of the last `if rank == 0:` of check_results that assigns to_change"""
    for s in reversed(fnode.body):
        if isinstance(s, _ast.If) and isinstance(s.test, _ast.Compare) and getattr(s.test.left, "id", None) == "rank":
            if any(isinstance(t, _ast.Assign) and getattr(t.targets[0], "id", None) == "new_uniq_fun" for t in s.body):
                return s.body
    return None


def _assign_index(body, name):
    for k, t in enumerate(body):
        if isinstance(t, _ast.Assign) and getattr(t.targets[0], "id", None) == name:
            return k
    return None


def _r1_region(fnode):
    body = _rank0_body(fnode)
    if body is None:
        return None
    a, b = _assign_index(body, "nuniq"), _assign_index(body, "new_uniq_fun")
    if a is None or b is None or not a < b:
        return None
    return body[a:b + 1]


def _mk_to_change(eng, st):
    return st.alloc(HSeq(NTC, lambda k: VTuple([VInt(TCI(k)), VLabel(TCS(k))])))


def _distinct(seq, tag):
    q, q2 = z3.Int(fresh_name("q!" + tag)), z3.Int(fresh_name("q2!" + tag))
    return z3.ForAll([q, q2], z3.Implies(z3.And(0 <= q, q < q2, q2 < seq.len), seq.get(q).t != seq.get(q2).t))


def r1_contract():
    from contracts.c_utils import get_unique_indexes_contract

    def setup(eng, st, args):
        c = get_unique_indexes_contract()
        c.returns = lambda e, s, a: VTuple([e.fresh(T("dict", T.label, T.int, True), "new_uniq", s), e.fresh(T("dict", T.label, T.int, False), "new_match", s)])
        eng.contracts["utils.get_unique_indexes"] = c
        st.ghost["U0"] = st.heap[args["uniq_fun"].addr]

    def requires(S, a):
        U = S.seq(a["uniq_fun"])
        return [("the unique functions are pairwise distinct before the repair (C03 held for the library as written by the duplicate checker)", _distinct(U, "rq")),
                ("to_change is a list", NTC >= 0)]

    def ensures(S, a, res):
        U = S.st.ghost["U0"]
        nu = S.var("nuniq")
        NU = S.seq(S.var("new_uniq_fun"))
        op = S.st.heap[S.var("old_pos").addr]
        nm = S.st.heap[S.var("new_match").addr]
        i, j, q = z3.Int(fresh_name("i!sk")), z3.Int(fresh_name("j!sk")), z3.Int(fresh_name("q!sk"))
        s = TCS(i)
        inr = z3.And(0 <= i, i < NTC)
        return [("nuniq is the number of unique functions before the repair", nu.t == U.len),
                ("old_pos[s] is the position of s among the old unique functions, for every string it holds",
                 z3.Implies(z3.And(inr, op.has(s)), z3.And(0 <= op.val(s).t, op.val(s).t < U.len, U.get(op.val(s).t).t == s))),
                ("old_pos holds every old unique function", z3.Implies(z3.And(0 <= j, j < U.len), op.has(U.get(j).t))),
                ("the appended strings are pairwise distinct", _distinct(NU, "en")),
                ("no appended string is an old unique function", z3.Implies(z3.And(0 <= q, q < NU.len), z3.Not(op.has(NU.get(q).t)))),
                ("every un-merged function that is not an old unique function is appended, and new_match gives its position among the appended strings",
                 z3.Implies(z3.And(inr, z3.Not(op.has(s))), z3.And(nm.has(s), 0 <= nm.val(s).t, nm.val(s).t < NU.len, NU.get(nm.val(s).t).t == s)))]

    c = Contract("check_results", {"uniq_fun": T.list(T.label), "to_change": _mk_to_change}, requires=requires, ensures=ensures, setup=setup,
                 region=_r1_region, raises=lambda S, a, e: z3.BoolVal(False))
    c.region_name = "un-merge: which strings are appended"
    return c


# ------------------------------------------------------------------------------------------------ R2: maps
def _r2_region(fnode):
    body = _rank0_body(fnode)
    if body is None:
        return None
    for t in body:
        if isinstance(t, _ast.For) and len(t.body) == 1 and isinstance(t.body[0], _ast.Assign) and isinstance(t.body[0].targets[0], _ast.Subscript) and \
                getattr(t.body[0].targets[0].value, "id", None) == "inv_subs":
            return [t]
    return None


def r2_contract():
    NI = z3.Int("len_inv_subs")

    def mk_inv(eng, st):
        v = eng.fresh(T.list(T.label), "inv_subs", st)
        st.heap[v.addr].len = NI
        st.ghost["INV0"] = st.heap[v.addr].get
        return v

    def requires(S, a):
        k = z3.Int("k!rq")
        return [("every un-merged function is a row of the map file", z3.ForAll([k], z3.Implies(z3.And(0 <= k, k < NTC), z3.And(0 <= TCI(k), TCI(k) < NI)), patterns=[TCI(k)]))]

    def state(S, upto):
        iv = S.seq(S.var("inv_subs"))
        i0 = S.st.ghost["INV0"]
        p, k = z3.Int(fresh_name("p!r2")), z3.Int(fresh_name("k!r2"))
        empty = S.eng.label_of("")
        hit = z3.Exists([k], z3.And(0 <= k, k < upto, TCI(k) == p))
        return [("the map file keeps its rows", iv.len == NI),
                ("rows of the functions visited so far are the empty row", z3.ForAll([k], z3.Implies(z3.And(0 <= k, k < upto), iv.get(TCI(k)).t == empty), patterns=[TCI(k)])),
                ("every other row is unchanged", z3.ForAll([p], z3.Implies(z3.And(0 <= p, p < NI, z3.Not(hit)), iv.get(p).t == i0(p).t)))]

    def inv(S, st):
        return state(S, S.var("__i").t)

    def ensures(S, a, res):
        return [("after the loop: " + nm, c) for nm, c in state(S, NTC)]

    c = Contract("check_results", {"inv_subs": mk_inv, "to_change": _mk_to_change}, requires=requires, ensures=ensures,
                 region=_r2_region, raises=lambda S, a, e: z3.BoolVal(False))
    c.loop_select = lambda node: LoopSpec(inv)
    c.region_name = "un-merge: maps become the identity"
    return c


# ------------------------------------------------------------------------------------------------ R3: matches
def _r3_region(fnode):
    body = _rank0_body(fnode)
    if body is None:
        return None
    for t in body:
        if isinstance(t, _ast.For) and any(isinstance(x, _ast.Assign) and isinstance(x.targets[0], _ast.Subscript) and getattr(x.targets[0].value, "id", None) == "matches"
                                           for x in _ast.walk(t)):
            return [t]
    return None


OP_HAS = z3.Function("old_pos.has", Label, z3.BoolSort())
OP_VAL = z3.Function("old_pos.val", Label, z3.IntSort())
NM_HAS = z3.Function("new_match.has", Label, z3.BoolSort())
NM_VAL = z3.Function("new_match.val", Label, z3.IntSort())
NUNIQ = z3.Int("nuniq")


def r3_contract():
    NA = z3.Int("len_matches")

    def mk_m(eng, st):
        v = eng.fresh(T.arr(T.int), "matches", st)
        st.heap[v.addr].len = NA
        st.ghost["M0"] = st.heap[v.addr].get
        return v

    def mk_dict(has, val):
        return lambda eng, st: st.alloc(HDict(lambda t: has(t), lambda t: VInt(val(t)), None))

    def want(k):
        s = TCS(k)
        return z3.If(OP_HAS(s), OP_VAL(s), NUNIQ + NM_VAL(s))

    def requires(S, a):
        k, k2 = z3.Ints("k!rq k2!rq")
        return [("every un-merged function is a row of the match file", z3.ForAll([k], z3.Implies(z3.And(0 <= k, k < NTC), z3.And(0 <= TCI(k), TCI(k) < NA)), patterns=[TCI(k)])),
                ("a function is un-merged once", z3.ForAll([k, k2], z3.Implies(z3.And(0 <= k, k < k2, k2 < NTC), TCI(k) != TCI(k2)), patterns=[z3.MultiPattern(TCI(k), TCI(k2))])),
                ("R1: a string that is not an old unique function has a position among the appended ones",
                 z3.ForAll([k], z3.Implies(z3.And(0 <= k, k < NTC, z3.Not(OP_HAS(TCS(k)))), NM_HAS(TCS(k))), patterns=[TCS(k)]))]

    def state(S, upto):
        m = S.seq(S.var("matches"))
        m0 = S.st.ghost["M0"]
        p, k = z3.Int(fresh_name("p!r3")), z3.Int(fresh_name("k!r3"))
        hit = z3.Exists([k], z3.And(0 <= k, k < upto, TCI(k) == p))
        return [("the match array keeps its length", m.len == NA),
                ("the functions visited so far point at their own string: the old unique entry if there is one, else nuniq + position among the appended strings",
                 z3.ForAll([k], z3.Implies(z3.And(0 <= k, k < upto), m.get(TCI(k)).t == want(k)), patterns=[TCI(k)])),
                ("every other match is unchanged", z3.ForAll([p], z3.Implies(z3.And(0 <= p, p < NA, z3.Not(hit)), m.get(p).t == m0(p).t)))]

    def inv(S, st):
        return state(S, S.var("__i").t)

    def ensures(S, a, res):
        return [("after the loop: " + nm, c) for nm, c in state(S, NTC)]

    c = Contract("check_results", {"matches": mk_m, "to_change": _mk_to_change, "old_pos": mk_dict(OP_HAS, OP_VAL), "new_match": mk_dict(NM_HAS, NM_VAL),
                                   "nuniq": lambda eng, st: VInt(NUNIQ)},
                 requires=requires, ensures=ensures, region=_r3_region, raises=lambda S, a, e: z3.BoolVal(False))
    c.loop_select = lambda node: LoopSpec(inv)
    c.region_name = "un-merge: matches"
    return c


def composition_lemmas():
    """From the postconditions of R1 and R3 (as hypotheses over uninterpreted lists): the new unique list U' = U ++ NU is duplicate-free
    and every un-merged function's match points at its own string."""
    U = z3.Function("U", z3.IntSort(), Label)
    NU = z3.Function("NU", z3.IntSort(), Label)
    nU, nNU = z3.Ints("nU nNU")
    M1 = z3.Function("matches1", z3.IntSort(), z3.IntSort())
    i, j, q, q2 = z3.Ints("i j q q2")

    def U1(p):
        return z3.If(p < nU, U(p), NU(p - nU))
    r1 = z3.And(
        nU >= 0, nNU >= 0, NUNIQ == nU,
        z3.ForAll([q, q2], z3.Implies(z3.And(0 <= q, q < q2, q2 < nU), U(q) != U(q2))),
        z3.ForAll([i], z3.Implies(z3.And(0 <= i, i < NTC, OP_HAS(TCS(i))), z3.And(0 <= OP_VAL(TCS(i)), OP_VAL(TCS(i)) < nU, U(OP_VAL(TCS(i))) == TCS(i)))),
        z3.ForAll([j], z3.Implies(z3.And(0 <= j, j < nU), OP_HAS(U(j)))),
        z3.ForAll([q, q2], z3.Implies(z3.And(0 <= q, q < q2, q2 < nNU), NU(q) != NU(q2))),
        z3.ForAll([q], z3.Implies(z3.And(0 <= q, q < nNU), z3.Not(OP_HAS(NU(q))))),
        z3.ForAll([i], z3.Implies(z3.And(0 <= i, i < NTC, z3.Not(OP_HAS(TCS(i)))),
                                  z3.And(NM_HAS(TCS(i)), 0 <= NM_VAL(TCS(i)), NM_VAL(TCS(i)) < nNU, NU(NM_VAL(TCS(i))) == TCS(i)))))
    r3 = z3.ForAll([i], z3.Implies(z3.And(0 <= i, i < NTC), M1(TCI(i)) == z3.If(OP_HAS(TCS(i)), OP_VAL(TCS(i)), NUNIQ + NM_VAL(TCS(i)))))
    a, b = z3.Ints("a b")
    k = z3.Int("k")
    return [("the rewritten unique list (old entries followed by the appended ones) is duplicate-free",
             z3.Implies(r1, z3.Implies(z3.And(0 <= a, a < b, b < nU + nNU), U1(a) != U1(b)))),
            ("every un-merged function's match is a position of the rewritten unique list holding the function's own string",
             z3.Implies(z3.And(r1, r3, 0 <= k, k < NTC), z3.And(0 <= M1(TCI(k)), M1(TCI(k)) < nU + nNU, U1(M1(TCI(k))) == TCS(k))))]
