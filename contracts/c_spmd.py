"""Sidecar contract for simplifier.make_changes (C13, C03): the cross-rank merge of the per-rank rewriting results into the
replicated global lists -- an SPMD function (every rank executes it, with its own local lists).

SPMD rule used for the collectives (assumption A-mpi + A-spmd, listed in the evidence): every rank runs this very function; the
rank-dependent inputs are functions of the rank number (STR(q, c) is entry c of rank q's str_fun, ...), the replicated inputs
(all_fun, all_sym, all_inv_subs) are the same on every rank.  For each collective the sidecar names the communicated value as a
function of the source rank:

  comm.gather(x, root=0)   obligation (guarantee): the local x equals G(rank) -- proved for the arbitrary rank the function is
                           verified for, hence for every rank;  result (rely): on rank 0 the list [G(0), ..., G(size-1)], None elsewhere
  comm.bcast(x, root=0)    obligation: on rank 0, x equals B;   result: B on every rank

The slice starts are abstracted to LO(q) with the facts  LO(0) = 0, LO(size) = N, LO monotone  -- each one is proved for the closed
form lo(N, q, size) of utils.split_idx (contract verified in c_utils) as a lemma obligation of this check, and the call
utils.split_idx(len(all_fun), rank, size) is replaced by that contract's result ([] or [LO(rank), LO(rank+1) - 1]).

Postcondition (whole view, for every rank q and local position c < LEN(q), P = LO(q) + c):
  all_fun'[P]      = STR(q, c)                                    -- the global string list is the concatenation of the local lists
  all_sym'[P]      = SYM(q, c) if STR(q, c) != all_fun[P] else all_sym[P]
  all_inv_subs'[P] = copy of INV(q, c) (or None) if STR(q, c) != all_fun[P] else all_inv_subs[P]
  lengths unchanged -- since the slices tile 0..N-1 this determines every entry."""
import ast as _ast
import z3
from pyvc.engine import Contract, LoopSpec, Heap
from pyvc.values import (T, VInt, VLabel, VFn, VNone, VRef, VMaybeNone, VBool, HSeq, Label, Fn, Unsupported, fresh_name)
from pyvc.models import CNT, IDX, RNK, BoolArr, filter_axioms, filter_ext, SUMI, sum_unfold
from contracts.c_utils import lo

I = z3.IntSort()
R, P, N = z3.Int("rank"), z3.Int("size"), z3.Int("len_all")
LO = z3.Function("LO", I, I)
LENF = z3.Function("LENF", I, I)
STR = z3.Function("STR", I, I, Label)
SYM = z3.Function("SYM", I, I, Fn)
INV = z3.Function("INV", I, I, Fn)
INVN = z3.Function("INV.isnone", I, I, z3.BoolSort())
CHM = z3.Function("CHM", I, BoolArr)
from pyvc.models import COPYFN as COPY


def lo_lemmas():
    """the facts about LO used below, as closed-form lemmas over lo(N, q, P) of utils.split_idx"""
    n, p, q, q2 = z3.Ints("N P q q2")
    pre = z3.And(n >= 0, p >= 1)
    a, e = z3.Ints("a e")          # quotient and remainder, named so that the only product is q * a
    dm = z3.And(n == a * p + e, 0 <= e, e < p, a >= 0)

    def lo_(x):
        return x * a + z3.If(x < e, x, e)
    return [
        ("lo(N, q, P) = q*a + min(q, e) with N = a*P + e (definition unfolded: N / P = a, N % P = e)",
         z3.Implies(z3.And(pre, dm), z3.And(n / p == a, n % p == e))),
        ("LO(0) = 0", z3.Implies(z3.And(pre, dm), lo_(z3.IntVal(0)) == 0)),
        ("LO(size) = N", z3.Implies(z3.And(pre, dm), lo_(p) == n)),
        ("LO is monotone over any two ranks: q <= q2 => LO(q) <= LO(q2)",
         z3.Implies(z3.And(pre, dm, 0 <= q, q <= q2, q2 <= p, (q2 - q) * a >= 0), lo_(q) <= lo_(q2))),
        ("(q2 - q) * a >= 0 for q <= q2, a >= 0 (the one nonlinear step)", z3.Implies(z3.And(q <= q2, a >= 0), (q2 - q) * a >= 0)),
    ]


def _collective_targets(fnode):
    """collective call -> name of the communicated variable (the assignment target, else the first argument)"""
    out = {}
    for s in _ast.walk(fnode):
        if isinstance(s, _ast.Assign) and isinstance(s.value, _ast.Call) and isinstance(s.value.func, _ast.Attribute) and \
                s.value.func.attr in ("gather", "bcast", "scatter"):
            if isinstance(s.targets[0], _ast.Name):
                out[id(s.value)] = s.targets[0].id
            elif s.value.args and isinstance(s.value.args[0], _ast.Name):
                out[id(s.value)] = s.value.args[0].id
    return out


def _row(eng, length, get, numpy=False, etype=None):
    eng._addr += 1
    Heap.shared[eng._addr] = HSeq(length, get, numpy=numpy, etype=etype)
    return VRef(eng._addr)


def same(eng, st, x, y, what, guard, node, depth=0):
    """obligations: the value x equals the specified value y (structurally; sequences at a Skolem index)"""
    if isinstance(x, VMaybeNone) and isinstance(y, VMaybeNone):
        eng.oblige(st, "%s: None-ness" % what, z3.Implies(guard, x.isnone == y.isnone), "spmd", node)
        return same(eng, st, x.val, y.val, what, z3.And(guard, z3.Not(x.isnone)), node, depth)
    if isinstance(x, VMaybeNone):
        eng.oblige(st, "%s: is not None" % what, z3.Implies(guard, z3.Not(x.isnone)), "spmd", node)
        return same(eng, st, x.val, y, what, guard, node, depth)
    if isinstance(x, VRef) and isinstance(y, VRef):
        ox, oy = st.heap[x.addr], st.heap[y.addr]
        if not (isinstance(ox, HSeq) and isinstance(oy, HSeq)):
            raise Unsupported("spmd value comparison over %r" % (ox,))
        eng.oblige(st, "%s: length" % what, z3.Implies(guard, ox.len == oy.len), "spmd", node)
        k = z3.Int(fresh_name("k!spmd"))
        return same(eng, st, ox.get(k), oy.get(k), what + " [entry k]", z3.And(guard, 0 <= k, k < oy.len), node, depth + 1)
    for cls, f in ((VInt, lambda v: v.t), (VLabel, lambda v: v.t), (VFn, lambda v: v.t)):
        if isinstance(x, cls) and isinstance(y, cls):
            eng.oblige(st, "%s: value" % what, z3.Implies(guard, f(x) == f(y)), "spmd", node)
            return
    # values of different kinds: equal only if the guard is false (e.g. what a non-root rank passes to bcast is never looked at)
    eng.oblige(st, "%s: same kind of value" % what, z3.Not(guard), "spmd", node)


def make_changes_contract():
    def idx(q, k):
        return IDX(CHM(q), LENF(q), k)

    def cnt(q):
        return CNT(CHM(q), LENF(q))

    # value on rank q of each gathered variable
    def G(eng, name):
        if name == "start_idx":
            return lambda q: VInt(LENF(q))
        if name == "chidx":
            return lambda q: _row(eng, cnt(q), lambda k, q=q: VInt(idx(q, k)), etype=T.int)
        if name == "str_changes":
            return lambda q: _row(eng, cnt(q), lambda k, q=q: VLabel(STR(q, idx(q, k))), etype=T.label)
        if name == "sym_changes":
            return lambda q: _row(eng, cnt(q), lambda k, q=q: VFn(SYM(q, idx(q, k))), etype=T.fn)
        if name == "inv_changes":
            return lambda q: _row(eng, cnt(q), lambda k, q=q: VMaybeNone(INVN(q, idx(q, k)), VFn(INV(q, idx(q, k)))), etype=T.opt(T.fn))
        raise Unsupported("make_changes gathers %r: no rank-indexed specification in the sidecar" % name)

    def B(eng, st, name):
        if name == "start_idx":
            return st.alloc(HSeq(P + 1, lambda k: VInt(LO(k)), numpy=True, etype=T.int))
        g = G(eng, name)
        return st.alloc(HSeq(P, g))

    def m_gather(eng, st, args, kwargs, node):
        name = st.ghost["coll"].get(id(node))
        if name is None:
            raise Unsupported("gather whose result is not assigned to a name")
        root = kwargs.get("root", args[1] if len(args) > 1 else VInt(0))
        if not (isinstance(root, VInt) and z3.is_int_value(root.t) and root.t.as_long() == 0):
            raise Unsupported("gather to a root other than 0")
        g = G(eng, name)
        x = args[0]
        if isinstance(x, VRef) and st.heap[x.addr].note and st.heap[x.addr].note[0] == "filter":
            _, ma, n, _src = st.heap[x.addr].note
            filter_ext(eng, ma, CHM(R), LENF(R))
            eng.oblige(st, "guarantee for gather(%s): the local list is filtered over the rank's whole slice" % name, n == LENF(R), "spmd", node)
        same(eng, st, x, g(R), "guarantee for gather(%s): the local value is the specified value of this rank" % name, z3.BoolVal(True), node)
        return VMaybeNone(R != 0, st.alloc(HSeq(P, g)))

    def m_bcast(eng, st, args, kwargs, node):
        name = st.ghost["coll"].get(id(node))
        if name is None:
            raise Unsupported("bcast whose result is not assigned to a name")
        b = B(eng, st, name)
        same(eng, st, args[0], b, "guarantee for bcast(%s): on the root the value sent is the specified one" % name, R == 0, node)
        return b

    def m_split_idx(eng, st, args, kwargs, node):
        n, r, p = args
        eng.oblige(st, "split_idx is called for (len(all_fun), rank, size)", z3.And(eng.as_int(n) == N, eng.as_int(r) == R, eng.as_int(p) == P), "spmd", node)
        ne = LO(R) < LO(R + 1)
        return st.alloc(HSeq(z3.If(ne, 2, 0), lambda k: VInt(z3.If(k == 0, LO(R), LO(R + 1) - 1)), etype=T.int))

    def opaque_method(eng, st, fn, args, kwargs, node):
        raise Unsupported("call of an opaque object")

    def setup(eng, st, args):
        q, q2, c = z3.Ints("q!ax q2!ax c!ax")
        st.env["rank"], st.env["size"] = VInt(R), VInt(P)
        eng.models["utils.split_idx"] = m_split_idx
        eng.models["comm.gather"] = m_gather
        eng.models["comm.bcast"] = m_bcast
        eng.methods_fn = {"copy": lambda e, s, recv, a, k, node: VFn(COPY(recv.t))}
        fnode = eng.find_function("make_changes")
        st.ghost["coll"] = _collective_targets(fnode)
        af = st.heap[args["all_fun"].addr]
        st.ghost["ALL0"], st.ghost["SYM0"], st.ghost["INV0"] = af.get, st.heap[args["all_sym"].addr].get, st.heap[args["all_inv_subs"].addr].get
        all0 = af.get
        eng.axioms += [
            LO(z3.IntVal(0)) == 0, LO(P) == N,
            z3.ForAll([q, q2], z3.Implies(z3.And(0 <= q, q <= q2, q2 <= P), LO(q) <= LO(q2)), patterns=[z3.MultiPattern(LO(q), LO(q2))]),
            z3.ForAll([q], LENF(q) == LO(q + 1) - LO(q), patterns=[LENF(q)]),
            z3.ForAll([q, c], z3.Select(CHM(q), c) == (STR(q, c) != all0(LO(q) + c).t), patterns=[z3.Select(CHM(q), c)]),
        ]
        filter_axioms(eng, CHM(R), LENF(R))

    def mk_list(et, name, n):
        def mk(eng, st):
            v = eng.fresh(T.list(et), name, st)
            st.heap[v.addr].len = n
            return v
        return mk

    def mk_local(getter, et):
        def mk(eng, st):
            return st.alloc(HSeq(LENF(R), getter, etype=et))
        return mk

    def requires(S, a):
        return [("0 <= rank < size", z3.And(0 <= R, R < P)), ("N >= 0", N >= 0)]

    # ------------------------------------------------------------------ the merge loops
    def view(S):
        return S.seq(S.var("all_fun")), S.seq(S.var("all_sym")), S.seq(S.var("all_inv_subs"))

    def merged(S, q, c):
        """the three global lists hold rank q's result at position LO(q) + c"""
        af, asy, ai = view(S)
        a0, s0, i0 = S.st.ghost["ALL0"], S.st.ghost["SYM0"], S.st.ghost["INV0"]
        p = LO(q) + c
        ch = z3.Select(CHM(q), c)
        iv, i0v = ai.get(p), i0(p)
        return z3.And(af.get(p).t == STR(q, c),
                      asy.get(p).t == z3.If(ch, SYM(q, c), s0(p).t),
                      iv.isnone == z3.If(ch, INVN(q, c), i0v.isnone),
                      z3.Implies(z3.Not(iv.isnone), iv.val.t == z3.If(ch, COPY(INV(q, c)), i0v.val.t)))

    def untouched(S, p):
        af, asy, ai = view(S)
        a0, s0, i0 = S.st.ghost["ALL0"], S.st.ghost["SYM0"], S.st.ghost["INV0"]
        iv, i0v = ai.get(p), i0(p)
        return z3.And(af.get(p).t == a0(p).t, asy.get(p).t == s0(p).t, iv.isnone == i0v.isnone, z3.Implies(z3.Not(iv.isnone), iv.val.t == i0v.val.t))

    def lens(S):
        af, asy, ai = view(S)
        return z3.And(af.len == N, asy.len == N, ai.len == N)

    def pat(S, p):
        af, _, _ = view(S)
        t = af.get(p).t
        return [t] if z3.is_app(t) and t.decl().kind() == z3.Z3_OP_UNINTERPRETED else None

    def outer_inv(S, st):
        i = S.var("__i0").t
        q, c, p = z3.Int(fresh_name("q!oi")), z3.Int(fresh_name("c!oi")), z3.Int(fresh_name("p!oi"))
        kw = {}
        pp = pat(S, p)
        if pp:
            kw["patterns"] = pp
        return [("the three lists keep their length", lens(S)),
                ("ranks below i are merged: every position of their slices holds that rank's result",
                 z3.ForAll([q, c], z3.Implies(z3.And(0 <= q, q < i, 0 <= c, c < LENF(q)), merged(S, q, c)), patterns=[STR(q, c)])),
                ("positions of the ranks not yet visited are untouched", z3.ForAll([p], z3.Implies(z3.And(LO(i) <= p, p < N), untouched(S, p)), **kw))]

    def inner_inv(S, st):
        i = S.var("i").t
        k = S.var("__i1").t
        filter_axioms(S.eng, CHM(i), LENF(i))
        q, c, p = z3.Int(fresh_name("q!ii")), z3.Int(fresh_name("c!ii")), z3.Int(fresh_name("p!ii"))
        kw = {}
        pp = pat(S, p)
        if pp:
            kw["patterns"] = pp
        done = z3.And(z3.Select(CHM(i), c), RNK(CHM(i), LENF(i), c) < k)
        return [("the three lists keep their length", lens(S)),
                ("ranks below i are merged",
                 z3.ForAll([q, c], z3.Implies(z3.And(0 <= q, q < i, 0 <= c, c < LENF(q)), merged(S, q, c)), patterns=[STR(q, c)])),
                ("positions of the ranks after i are untouched", z3.ForAll([p], z3.Implies(z3.And(LO(i + 1) <= p, p < N), untouched(S, p)), **kw)),
                ("in rank i's slice the first k changed positions hold the rank's result, the others are untouched",
                 z3.ForAll([c], z3.Implies(z3.And(0 <= c, c < LENF(i)), z3.If(done, merged(S, i, c), untouched(S, LO(i) + c))), patterns=[z3.Select(CHM(i), c)]))]

    def ensures(S, a, res):
        q, c = z3.Int(fresh_name("q!sk")), z3.Int(fresh_name("c!sk"))
        rng = z3.And(0 <= q, q < P, 0 <= c, c < LENF(q))
        af, asy, ai = view(S)
        a0, s0, i0 = S.st.ghost["ALL0"], S.st.ghost["SYM0"], S.st.ghost["INV0"]
        p = LO(q) + c
        ch = STR(q, c) != a0(p).t
        iv, i0v = ai.get(p), i0(p)
        out = [("the three lists keep their length N", lens(S)),
               ("all_fun'[LO(q) + c] = str_fun_q[c] for every rank q and local position c: the global list is the concatenation of the local lists, in rank order",
                z3.Implies(rng, af.get(p).t == STR(q, c))),
               ("all_sym' takes rank q's expression exactly where the string changed, and is unchanged elsewhere",
                z3.Implies(rng, asy.get(p).t == z3.If(ch, SYM(q, c), s0(p).t))),
               ("all_inv_subs' takes a copy of rank q's substitution (or None) exactly where the string changed, and is unchanged elsewhere",
                z3.Implies(rng, z3.And(iv.isnone == z3.If(ch, INVN(q, c), i0v.isnone),
                                       z3.Implies(z3.Not(iv.isnone), iv.val.t == z3.If(ch, COPY(INV(q, c)), i0v.val.t)))))]
        from pyvc.values import VTuple
        ok = isinstance(res, VTuple) and len(res.items) == 3 and all(isinstance(x, VRef) for x in res.items) and \
            [x.addr for x in res.items] == [a["all_fun"].addr, a["all_sym"].addr, a["all_inv_subs"].addr]
        out.append(("returns the three (updated in place) global lists, in this order", z3.BoolVal(bool(ok))))
        return out

    def cumsum_lemma(S, st):
        """start_idx after the cumulative sum: entry m is LO(m), 0 <= m <= size (induction over m; base and step are obligations)"""
        v = S.var("start_idx")
        if not isinstance(v, VRef):
            return
        note = S.note(v)
        if not note or note[0] != "cumsum":
            return
        arr = note[1]
        S.prove("start_idx has size + 1 entries after the cumulative sum", S.len(v) == P + 1)
        S.prove("prefix-sum lemma, base: cumsum[0] = LO(0)", z3.Implies(z3.And(sum_unfold(arr, z3.IntVal(0), SUMI)), SUMI(arr, z3.IntVal(1)) == LO(z3.IntVal(0))))
        m = z3.Int("m!ind")
        hyp = SUMI(arr, m + 1) == LO(m)
        step = z3.Implies(z3.And(0 <= m, m < P, hyp, sum_unfold(arr, m + 1, SUMI)), SUMI(arr, m + 2) == LO(m + 1))
        S.eng.oblige(st, "prefix-sum lemma, step: cumsum[m] = LO(m) => cumsum[m+1] = LO(m+1)", z3.ForAll([m], step), "lemma", None, "induction step")
        st.assume(z3.ForAll([m], z3.Implies(z3.And(1 <= m, m <= P + 1), SUMI(arr, m) == LO(m - 1)), patterns=[SUMI(arr, m)]))

    return Contract("make_changes",
                    {"all_fun": mk_list(T.label, "all_fun", N), "all_sym": mk_list(T.fn, "all_sym", N), "all_inv_subs": mk_list(T.opt(T.fn), "all_inv_subs", N),
                     "str_fun": mk_local(lambda c: VLabel(STR(R, c)), T.label), "sym_fun": mk_local(lambda c: VFn(SYM(R, c)), T.fn),
                     "inv_subs_fun": mk_local(lambda c: VMaybeNone(INVN(R, c), VFn(INV(R, c))), T.opt(T.fn))},
                    requires=requires, ensures=ensures, setup=setup, raises=lambda S, a, e: z3.BoolVal(False),
                    loops={0: LoopSpec(outer_inv), 1: LoopSpec(inner_inv)}, hooks={"start_idx": cumsum_lemma})


# ------------------------------------------------------------ initial_sympify: the all-to-all exchange of the printed strings (C13)
def _isym_region(fnode):
    """inside the last `if parallel:` of initial_sympify: from `start_idx = len(str_fun)` up to and including `str_fun = all_fun`"""
    for s in reversed(fnode.body):
        if isinstance(s, _ast.If) and isinstance(s.test, _ast.Name) and s.test.id == "parallel":
            body = s.body
            for k, t in enumerate(body):
                if isinstance(t, _ast.Assign) and isinstance(t.targets[0], _ast.Name) and t.targets[0].id == "str_fun" and \
                        isinstance(t.value, _ast.Name) and t.value.id == "all_fun":
                    if any(isinstance(c, _ast.Call) and getattr(c.func, "attr", None) == "bcast" for x in body[:k] for c in _ast.walk(x)):
                        return body[:k + 1]
    return None


def initial_sympify_merge_contract():
    """Region of initial_sympify after the per-rank sympify loop: every rank holds the printed strings of its slice (LENF(rank)
    entries, STR(rank, c)); afterwards str_fun is, on every rank, the list of all N = LO(size) strings with
    str_fun[LO(q) + c] = STR(q, c): the concatenation of the ranks' lists in rank order, whatever the rank count."""
    NT = LO(P)

    def G(eng, name):
        if name == "start_idx":
            return lambda q: VInt(LENF(q))
        if name == "str_fun":
            return lambda q: _row(eng, LENF(q), lambda c, q=q: VLabel(STR(q, c)), etype=T.label)
        raise Unsupported("initial_sympify communicates %r: no rank-indexed specification in the sidecar" % name)

    def m_gather(eng, st, args, kwargs, node):
        name = st.ghost["coll"].get(id(node))
        root = kwargs.get("root", args[1] if len(args) > 1 else VInt(0))
        if name is None or not (isinstance(root, VInt) and z3.is_int_value(root.t) and root.t.as_long() == 0):
            raise Unsupported("gather outside the sidecar's specification")
        g = G(eng, name)
        same(eng, st, args[0], g(R), "guarantee for gather(%s): the local value is the specified value of this rank" % name, z3.BoolVal(True), node)
        return VMaybeNone(R != 0, st.alloc(HSeq(P, g)))

    def m_bcast(eng, st, args, kwargs, node):
        name = st.ghost["coll"].get(id(node))
        root = kwargs.get("root", args[1] if len(args) > 1 else VInt(0))
        if name is None or not isinstance(root, VInt):
            raise Unsupported("bcast outside the sidecar's specification")
        if name == "start_idx":
            if not (z3.is_int_value(root.t) and root.t.as_long() == 0):
                raise Unsupported("start_idx is broadcast from a root other than 0")
            b = st.alloc(HSeq(P + 1, lambda k: VInt(LO(k)), numpy=True, etype=T.int))
        else:
            eng.oblige(st, "bcast(%s): the root is a rank" % name, z3.And(0 <= root.t, root.t < P), "spmd", node)
            b = G(eng, name)(root.t)
        same(eng, st, args[0], b, "guarantee for bcast(%s): on the root the value sent is the specified one" % name, R == root.t, node)
        return b

    def setup(eng, st, args):
        q, q2 = z3.Ints("q!ax q2!ax")
        st.env["rank"], st.env["size"] = VInt(R), VInt(P)
        st.env["parallel"] = VBool(True)
        from pyvc import models_np2
        models_np2.install(eng)
        eng.strict_squeeze = True
        eng.models["comm.gather"] = m_gather
        eng.models["comm.bcast"] = m_bcast
        st.ghost["coll"] = _collective_targets(eng.find_function("initial_sympify"))
        eng.axioms += [
            LO(z3.IntVal(0)) == 0,
            z3.ForAll([q, q2], z3.Implies(z3.And(0 <= q, q <= q2, q2 <= P), LO(q) <= LO(q2)), patterns=[z3.MultiPattern(LO(q), LO(q2))]),
            z3.ForAll([q], LENF(q) == LO(q + 1) - LO(q), patterns=[LENF(q)]),
        ]

    def requires(S, a):
        return [("0 <= rank < size", z3.And(0 <= R, R < P))]

    def filled(S, upto):
        af = S.seq(S.var("all_fun"))
        q, c = z3.Int(fresh_name("q!is")), z3.Int(fresh_name("c!is"))
        e = af.get(LO(q) + c)
        ok = z3.And(z3.Not(e.isnone), e.val.t == STR(q, c)) if isinstance(e, VMaybeNone) else (e.t == STR(q, c) if isinstance(e, VLabel) else z3.BoolVal(False))
        return z3.ForAll([q, c], z3.Implies(z3.And(0 <= q, q < upto, 0 <= c, c < LENF(q)), ok), patterns=[STR(q, c)])

    def inv(S, st):
        r = S.var("__i").t
        af = S.seq(S.var("all_fun"))
        return [("all_fun has LO(size) entries", af.len == NT), ("the slices of the ranks below r hold those ranks' strings", filled(S, r))]

    def cumsum_lemma(S, st):
        v = S.var("start_idx")
        if not isinstance(v, VRef):
            return
        note = S.note(v)
        if not note or note[0] != "cumsum":
            return
        arr = note[1]
        S.prove("start_idx has size + 1 entries after the cumulative sum", S.len(v) == P + 1)
        S.prove("prefix-sum lemma, base: cumsum[0] = LO(0)", z3.Implies(sum_unfold(arr, z3.IntVal(0), SUMI), SUMI(arr, z3.IntVal(1)) == LO(z3.IntVal(0))))
        m = z3.Int("m!ind")
        step = z3.Implies(z3.And(0 <= m, m < P, SUMI(arr, m + 1) == LO(m), sum_unfold(arr, m + 1, SUMI)), SUMI(arr, m + 2) == LO(m + 1))
        S.eng.oblige(st, "prefix-sum lemma, step: cumsum[m] = LO(m) => cumsum[m+1] = LO(m+1)", z3.ForAll([m], step), "lemma", None, "induction step")
        st.assume(z3.ForAll([m], z3.Implies(z3.And(1 <= m, m <= P + 1), SUMI(arr, m) == LO(m - 1)), patterns=[SUMI(arr, m)]))

    def ensures(S, a, res):
        v = S.var("str_fun")
        if not isinstance(v, VRef):
            return [("str_fun is the merged list", z3.BoolVal(False))]
        sf = S.seq(v)
        q, c = z3.Int(fresh_name("q!sk")), z3.Int(fresh_name("c!sk"))
        e = sf.get(LO(q) + c)
        # one atom (not split into conjuncts): both halves need the instance of the invariant that STR(q, c) triggers
        ok = z3.Not(z3.Or(e.isnone, e.val.t != STR(q, c))) if isinstance(e, VMaybeNone) else (e.t == STR(q, c) if isinstance(e, VLabel) else z3.BoolVal(False))
        return [("the merged list has N = LO(size) entries", sf.len == NT),
                ("str_fun'[LO(q) + c] = rank q's string c for every rank q: the concatenation of the local lists in rank order, on every rank",
                 z3.Implies(z3.And(0 <= q, q < P, 0 <= c, c < LENF(q)), ok))]

    def loop_select(node):
        if isinstance(node, _ast.For) and any(isinstance(c, _ast.Call) and getattr(c.func, "attr", None) == "bcast" for c in _ast.walk(node)) and \
                any(isinstance(t, _ast.Assign) and isinstance(t.targets[0], _ast.Subscript) and isinstance(t.targets[0].slice, _ast.Slice) for t in node.body):
            return LoopSpec(inv, havoc_types={"all_fun": T.list(T.opt(T.label))})
        return None

    c = Contract("initial_sympify", {"str_fun": lambda eng, st: st.alloc(HSeq(LENF(R), lambda k: VLabel(STR(R, k)), etype=T.label))},
                 requires=requires, ensures=ensures, setup=setup, region=_isym_region, raises=lambda S, a, e: z3.BoolVal(False),
                 hooks={"start_idx": cumsum_lemma})
    c.loop_select = loop_select
    c.region_name = "all-to-all exchange of the printed strings"
    return c


# ------------------------------------------------------------ simplifier.load_subs: distribution and collection of the map file (C17, C13)
NROWS = z3.Int("n_rows")
ROW0 = z3.Function("file.row", I, Fn)             # row p of the csv file (a list of strings; opaque here)
ROWV = z3.Function("rank.row", I, I, Fn)          # row c of rank q after the per-entry parsing (opaque)
GROW = z3.Function("global.row", I, Fn)           # the row the result must hold at position p


def _ls_dist_region(fnode):
    """from the first statement (`if rank == 0:` reading and splitting the file) up to and including the scatter"""
    for k, s in enumerate(fnode.body):
        if isinstance(s, _ast.Assign) and isinstance(s.value, _ast.Call) and getattr(s.value.func, "attr", None) == "scatter":
            first = 1 if (isinstance(fnode.body[0], _ast.Expr) and isinstance(fnode.body[0].value, _ast.Constant)) else 0
            return fnode.body[first:k + 1]
    return None


def _lo_axioms(total):
    q, q2 = z3.Ints("q!ax q2!ax")
    return [LO(z3.IntVal(0)) == 0, LO(P) == total,
            z3.ForAll([q, q2], z3.Implies(z3.And(0 <= q, q <= q2, q2 <= P), LO(q) <= LO(q2)), patterns=[z3.MultiPattern(LO(q), LO(q2))]),
            z3.ForAll([q], LENF(q) == LO(q + 1) - LO(q), patterns=[LENF(q)])]


def load_subs_distribute_contract():
    """Rank 0 reads the file, cuts the rows into `size` consecutive pieces and scatters them: afterwards every rank r holds the rows
    LO(r) .. LO(r+1)-1 of the file, in file order (LO = slice starts of np.array_split, the closed form of utils.split_idx: A-numpy,
    validated at run time).  Verified for the root (the other ranks only take part in the scatter)."""
    def sx(eng, q):
        return _row(eng, LENF(q), lambda c, q=q: VFn(ROW0(LO(q) + c)), etype=T.fn)

    def m_reader(eng, st, args, kwargs, node):
        return st.alloc(HSeq(NROWS, lambda p: VFn(ROW0(p)), etype=T.fn))

    def m_array_split(eng, st, args, kwargs, node):
        a, n = args[0], args[1]
        o = st.heap[a.addr]
        eng.oblige(st, "np.array_split is called for (arange(number of rows), size)", z3.And(o.len == NROWS, eng.as_int(n) == P), "spmd", node)
        g = o.get
        return st.alloc(HSeq(P, lambda q: _row(eng, LENF(q), lambda c, q=q: g(LO(q) + c), numpy=True, etype=T.int)))

    def m_scatter(eng, st, args, kwargs, node):
        x = args[0]
        root = kwargs.get("root", args[1] if len(args) > 1 else VInt(0))
        if not (isinstance(root, VInt) and z3.is_int_value(root.t) and root.t.as_long() == 0):
            raise Unsupported("scatter from a root other than 0")
        spec = st.alloc(HSeq(P, lambda q: sx(eng, q)))
        same(eng, st, x, spec, "guarantee for scatter(all_subs): on the root, piece q is the specified piece of rank q", R == 0, node)
        return sx(eng, R)

    def setup(eng, st, args):
        st.env["rank"], st.env["size"] = VInt(R), VInt(P)
        eng.models["csv.reader"] = m_reader
        eng.models["np.array_split"] = m_array_split
        eng.models["comm.scatter"] = m_scatter
        eng.axioms += _lo_axioms(NROWS)
        st.assume(R == 0)

    def requires(S, a):
        return [("size >= 1, the file has n_rows >= 0 rows", z3.And(P >= 1, NROWS >= 0))]

    def piece_ok(S, v, q):
        """all_subs[q] is the list of the rows LO(q) .. LO(q+1)-1"""
        if isinstance(v, VMaybeNone):
            isn, v = v.isnone, v.val
        else:
            isn = z3.BoolVal(False)
        if not isinstance(v, VRef):
            return z3.BoolVal(False)
        o = S.st.heap[v.addr]
        c = z3.Int(fresh_name("c!pk"))
        e = o.get(c)
        if not isinstance(e, VFn):
            return z3.And(z3.Not(isn), o.len == LENF(q), o.len == 0)
        return z3.And(z3.Not(isn), o.len == LENF(q), z3.ForAll([c], z3.Implies(z3.And(0 <= c, c < o.len), e.t == ROW0(LO(q) + c))))

    def inv(S, st):
        r = S.var("__i").t
        al = S.seq(S.var("all_subs"))
        q = z3.Int(fresh_name("q!ls"))
        return [("one piece per rank", al.len == P),
                ("the pieces of the ranks below r are their slices of the file, in file order", z3.ForAll([q], z3.Implies(z3.And(0 <= q, q < r), piece_ok(S, al.get(q), q))))]

    def ensures(S, a, res):
        v = S.var("all_subs")
        c = z3.Int(fresh_name("c!sk"))
        if not isinstance(v, VRef):
            return [("after the scatter the rank holds a list of rows", z3.BoolVal(False))]
        o = S.seq(v)
        return [("the rank holds as many rows as its slice has", o.len == LENF(R)),
                ("row c of the rank is row LO(rank) + c of the file", z3.Implies(z3.And(0 <= c, c < LENF(R)), o.get(c).t == ROW0(LO(R) + c)))]

    def loop_select(node):
        if isinstance(node, _ast.For) and isinstance(node.target, _ast.Name) and node.target.id == "r":
            return LoopSpec(inv, havoc_types={"all_subs": T.list(T.opt(T.list(T.fn))), "ii": T.arr(T.int)})
        return None

    c = Contract("load_subs", {"fname": T.label, "max_param": T.int}, requires=requires, ensures=ensures, setup=setup, region=_ls_dist_region,
                 raises=lambda S, a, e: z3.BoolVal(False))
    c.loop_select = loop_select
    c.region_name = "distribution of the file's rows (root)"
    return c


def _ls_coll_region(fnode):
    """from `all_subs = comm.gather(all_subs, root=0)` to the return"""
    for k, s in enumerate(fnode.body):
        if isinstance(s, _ast.Assign) and isinstance(s.value, _ast.Call) and getattr(s.value.func, "attr", None) == "gather":
            return fnode.body[k:]
    return None


def load_subs_collect_contract(bcast_res=True, root=True):
    """Every rank r holds LENF(r) processed rows ROWV(r, c).  With bcast_res the list returned on EVERY rank has LO(size) rows and row
    LO(q) + c is ROWV(q, c): the ranks' rows in rank order, i.e. (with the distribution contract) in file order, whatever the rank count.
    Without bcast_res that holds on rank 0 and the other ranks return None."""
    from pyvc import models_np2
    from pyvc.models import SUMI, sum_unfold
    NTOT = LO(P)

    def g_rows(eng, q):
        return _row(eng, LENF(q), lambda c, q=q: VFn(ROWV(q, c)), etype=T.fn)

    def m_gather(eng, st, args, kwargs, node):
        same(eng, st, args[0], g_rows(eng, R), "guarantee for gather(all_subs): the local rows are the specified rows of this rank", z3.BoolVal(True), node)
        return VMaybeNone(R != 0, st.alloc(HSeq(P, lambda q: g_rows(eng, q))))

    def m_bcast(eng, st, args, kwargs, node):
        b = st.alloc(HSeq(NTOT, lambda p: VFn(GROW(p)), etype=T.fn))
        same(eng, st, args[0], b, "guarantee for bcast(all_subs): on the root the list sent is the concatenation of the ranks' rows", R == 0, node)
        return b

    def setup(eng, st, args):
        models_np2.install(eng)
        st.env["rank"], st.env["size"] = VInt(R), VInt(P)
        st.env["bcast_res"] = VBool(bcast_res)
        eng.models["comm.gather"] = m_gather
        eng.models["comm.bcast"] = m_bcast
        q, c = z3.Ints("q!ax c!ax")
        eng.axioms += _lo_axioms(NTOT)[:1] + _lo_axioms(NTOT)[2:]
        eng.axioms.append(z3.ForAll([q, c], z3.Implies(z3.And(0 <= q, q < P, 0 <= c, c < LENF(q)), GROW(LO(q) + c) == ROWV(q, c)), patterns=[ROWV(q, c)]))
        # the function is verified once for the root and once for the other ranks (no merging of a list with None at `if rank == 0`)
        st.assume(R == 0 if root else R != 0)

    def requires(S, a):
        return [("0 <= rank < size", z3.And(0 <= R, R < P))]

    def chain_lemma(S, st):
        """after the flattening on the root: the prefix sums of the pieces' lengths are the slice starts (induction; base and step are obligations)"""
        v = S.var("all_subs")
        if not isinstance(v, VRef):
            return
        note = S.note(v)
        if not note or note[0] != "chain":
            return
        _, lens, n, own = note
        S.prove("the flattened list joins one piece per rank", n == P)
        S.prove("prefix-sum lemma, base: OFF(0) = LO(0)", SUMI(lens, z3.IntVal(0)) == LO(z3.IntVal(0)))
        m = z3.Int("m!ind")
        step = z3.Implies(z3.And(0 <= m, m < P, SUMI(lens, m) == LO(m), sum_unfold(lens, m, SUMI)), SUMI(lens, m + 1) == LO(m + 1))
        S.eng.oblige(st, "prefix-sum lemma, step: OFF(m) = LO(m) => OFF(m+1) = LO(m+1)", z3.ForAll([m], step), "lemma", None, "induction step")
        st.assume(z3.ForAll([m], z3.Implies(z3.And(0 <= m, m <= P), SUMI(lens, m) == LO(m)), patterns=[SUMI(lens, m)]))

    def ensures(S, a, res):
        q, c = z3.Int(fresh_name("q!sk")), z3.Int(fresh_name("c!sk"))
        rng = z3.And(0 <= q, q < P, 0 <= c, c < LENF(q))
        if isinstance(res, VMaybeNone):
            isn, v = res.isnone, res.val
        elif isinstance(res, VRef):
            isn, v = z3.BoolVal(False), res
        else:
            return [("returns the list of rows (or None off the root without bcast_res)", z3.BoolVal(False))]
        o = S.st.heap[v.addr]
        holder = z3.BoolVal(True) if bcast_res else (R == 0)
        e = o.get(LO(q) + c)
        ok = (e.t == ROWV(q, c)) if isinstance(e, VFn) else z3.BoolVal(False)
        out = [("the list is returned on %s" % ("every rank" if bcast_res else "rank 0, None elsewhere"), isn == z3.Not(holder)),
               ("it has LO(size) rows: one per row of the file", z3.Implies(holder, o.len == NTOT)),
               ("row LO(q) + c is row c of rank q: the ranks' rows in rank order", z3.Implies(z3.And(holder, rng), ok))]
        return out

    c = Contract("load_subs", {"all_subs": lambda eng, st: g_rows(eng, R), "fname": T.label, "max_param": T.int}, requires=requires, ensures=ensures, setup=setup,
                 region=_ls_coll_region, raises=lambda S, a, e: z3.BoolVal(False), hooks={"all_subs": chain_lemma})
    c.region_name = "collection of the processed rows (bcast_res=%s, %s)" % (bcast_res, "root" if root else "other ranks")
    return c


# ------------------------------------------------------------ generator.shape_to_functions: gathering the rewritten trees (C13, C01, C11)
NE = z3.Function("n_extra", I, I)                 # number of rewritten trees found by rank q
ET = z3.Function("extra.tree", I, I, Fn)          # k-th rewritten tree of rank q (label array, opaque)
EF = z3.Function("extra.fun", I, I, Label)        # its function string
EO = z3.Function("extra.orig", I, I, Label)       # the string of the tree it was derived from
GEF = z3.Function("global.extra.fun", I, Label)
GEO = z3.Function("global.extra.orig", I, Label)


def _stf_gather_region(fnode):
    for k, s in enumerate(fnode.body):
        if isinstance(s, _ast.Assign) and isinstance(s.value, _ast.Call) and getattr(s.value.func, "attr", None) == "gather" and getattr(s.targets[0], "id", None) == "extra_tree":
            end = len(fnode.body)
            for m in range(k, len(fnode.body)):
                if isinstance(fnode.body[m], _ast.Return):
                    end = m
                    break
            return fnode.body[k:end]
    return None


def stf_gather_contract(root=True):
    """Tail of shape_to_functions: every rank found NE(rank) rewritten trees and holds three parallel lists (tree, string, string of the
    original).  Afterwards extra_fun and extra_orig are, on every rank, the ranks' lists joined in rank order, and they are ALIGNED: with
    OFF(q) = NE(0) + ... + NE(q-1), entry OFF(q) + k of each list is the k-th entry of rank q's list (on rank 0 the same holds for extra_tree)."""
    from pyvc import models_np2
    from pyvc.models import SUMI, named_array

    def rows(eng, name):
        mk = {"extra_tree": lambda q, k: VFn(ET(q, k)), "extra_fun": lambda q, k: VLabel(EF(q, k)), "extra_orig": lambda q, k: VLabel(EO(q, k))}[name]
        return lambda q: _row(eng, NE(q), lambda k, q=q: mk(q, k))

    def nearr(eng):
        k = z3.Int("k!ch")
        return named_array(eng, z3.Lambda([k], NE(k)), "CHL", extra_triggers=False)

    def m_gather(eng, st, args, kwargs, node):
        name = st.ghost["coll"].get(id(node))
        if name not in ("extra_tree", "extra_fun", "extra_orig"):
            raise Unsupported("shape_to_functions gathers %r: no rank-indexed specification in the sidecar" % name)
        same(eng, st, args[0], rows(eng, name)(R), "guarantee for gather(%s): the local list is the specified list of this rank" % name, z3.BoolVal(True), node)
        return VMaybeNone(R != 0, st.alloc(HSeq(P, rows(eng, name))))

    def m_bcast(eng, st, args, kwargs, node):
        name = st.ghost["coll"].get(id(node))
        G = {"extra_fun": GEF, "extra_orig": GEO}.get(name)
        if G is None:
            raise Unsupported("shape_to_functions broadcasts %r: no specification in the sidecar" % name)
        b = st.alloc(HSeq(SUMI(nearr(eng), P), lambda p: VLabel(G(p)), etype=T.label))
        same(eng, st, args[0], b, "guarantee for bcast(%s): on the root the list sent is the ranks' lists joined in rank order" % name, R == 0, node)
        return b

    def setup(eng, st, args):
        models_np2.install(eng)
        st.env["rank"], st.env["size"] = VInt(R), VInt(P)
        eng.models["comm.gather"] = m_gather
        eng.models["comm.bcast"] = m_bcast
        st.ghost["coll"] = _collective_targets(eng.find_function("shape_to_functions"))
        q, k = z3.Ints("q!ax k!ax")
        A = nearr(eng)
        eng.axioms.append(z3.ForAll([q], NE(q) >= 0, patterns=[NE(q)]))
        eng.axioms.append(z3.ForAll([q, k], z3.Implies(z3.And(0 <= q, q < P, 0 <= k, k < NE(q)),
                                                       z3.And(GEF(SUMI(A, q) + k) == EF(q, k), GEO(SUMI(A, q) + k) == EO(q, k))), patterns=[EF(q, k)]))
        eng.axioms.append(z3.ForAll([q, k], z3.Implies(z3.And(0 <= q, q < P, 0 <= k, k < NE(q)), GEO(SUMI(A, q) + k) == EO(q, k)), patterns=[EO(q, k)]))
        st.assume(R == 0 if root else R != 0)

    def requires(S, a):
        return [("0 <= rank < size", z3.And(0 <= R, R < P))]

    def ensures(S, a, res):
        eng = S.eng
        A = nearr(eng)
        q, k = z3.Int(fresh_name("q!sk")), z3.Int(fresh_name("k!sk"))
        rng = z3.And(0 <= q, q < P, 0 <= k, k < NE(q))
        p = SUMI(A, q) + k
        from pyvc.models import sum_unfold
        S.st.assume(sum_unfold(A, q, SUMI))          # the definition of the prefix sum, at the (arbitrary) rank q
        out = []
        for name, fn in (("extra_fun", EF), ("extra_orig", EO)):
            v = S.var(name)
            if not isinstance(v, VRef):
                out.append(("%s is a list on every rank" % name, z3.BoolVal(False)))
                continue
            o = S.seq(v)
            out.append(("%s has one entry per rewritten tree of any rank" % name, o.len == SUMI(A, P)))
            out.append(("%s[OFF(q) + k] is entry k of rank q's list (rank order; the two lists are aligned)" % name, z3.Implies(rng, o.get(p).t == fn(q, k))))
        if root:
            v = S.var("extra_tree")
            if isinstance(v, VMaybeNone):
                v = v.val
            if not isinstance(v, VRef):
                out.append(("extra_tree is the joined list on rank 0", z3.BoolVal(False)))
            else:
                o = S.seq(v)
                out.append(("rank 0: extra_tree has the same length and is aligned with the two string lists", z3.And(o.len == SUMI(A, P), z3.Implies(rng, o.get(p).t == ET(q, k)))))
        return out

    c = Contract("shape_to_functions", {"extra_tree": lambda eng, st: rows(eng, "extra_tree")(R), "extra_fun": lambda eng, st: rows(eng, "extra_fun")(R),
                                        "extra_orig": lambda eng, st: rows(eng, "extra_orig")(R)},
                 requires=requires, ensures=ensures, setup=setup, region=_stf_gather_region, raises=lambda S, a, e: z3.BoolVal(False))
    c.region_name = "gathering the rewritten trees (%s)" % ("root" if root else "other ranks")
    return c


# ------------------------------------------------------------ generic: gather / chain / bcast of parallel per-rank lists
def parallel_gather_contract(qual, region, names, root=True, label=""):
    """`names`: list of (variable, kind) with kind in 'fn' | 'label' | 'int'.  Every rank holds, for each variable, a list with CNT(rank)
    entries E_var(rank, k) (the lists are parallel).  The region gathers them, joins them on the root and broadcasts them.  Afterwards every
    rank holds, for each variable, the list with OFF(size) entries whose entry OFF(q) + k is E_var(q, k) -- rank order, all lists aligned."""
    from pyvc import models_np2
    from pyvc.models import SUMI, named_array, sum_unfold
    tag = qual.replace(".", "_") + label
    CNTF = z3.Function("cnt." + tag, I, I)
    sorts = {"fn": Fn, "label": Label, "int": I}
    wrap = {"fn": VFn, "label": VLabel, "int": VInt}
    E = {n: z3.Function("E.%s.%s" % (tag, n), I, I, sorts[k]) for n, k in names}
    G = {n: z3.Function("G.%s.%s" % (tag, n), I, sorts[k]) for n, k in names}
    kind = dict(names)

    def rows(eng, n):
        return lambda q: _row(eng, CNTF(q), lambda k, q=q: wrap[kind[n]](E[n](q, k)))

    def arr(eng):
        k = z3.Int("k!ch")
        return named_array(eng, z3.Lambda([k], CNTF(k)), "CHL", extra_triggers=False)

    def m_gather(eng, st, args, kwargs, node):
        n = st.ghost["coll"].get(id(node))
        if n not in E:
            raise Unsupported("%s gathers %r: no rank-indexed specification in the sidecar" % (qual, n))
        same(eng, st, args[0], rows(eng, n)(R), "guarantee for gather(%s): the local list is the specified list of this rank" % n, z3.BoolVal(True), node)
        return VMaybeNone(R != 0, st.alloc(HSeq(P, rows(eng, n))))

    def m_bcast(eng, st, args, kwargs, node):
        n = st.ghost["coll"].get(id(node))
        if n not in E:
            raise Unsupported("%s broadcasts %r: no specification in the sidecar" % (qual, n))
        b = st.alloc(HSeq(SUMI(arr(eng), P), lambda p: wrap[kind[n]](G[n](p))))
        same(eng, st, args[0], b, "guarantee for bcast(%s): on the root the list sent is the ranks' lists joined in rank order" % n, R == 0, node)
        return b

    def setup(eng, st, args):
        models_np2.install(eng)
        st.env["rank"], st.env["size"] = VInt(R), VInt(P)
        eng.models["comm.gather"] = m_gather
        eng.models["comm.bcast"] = m_bcast
        st.ghost["coll"] = _collective_targets(eng.find_function(qual))
        q, k = z3.Ints("q!ax k!ax")
        A = arr(eng)
        eng.axioms.append(z3.ForAll([q], CNTF(q) >= 0, patterns=[CNTF(q)]))
        for n in E:
            eng.axioms.append(z3.ForAll([q, k], z3.Implies(z3.And(0 <= q, q < P, 0 <= k, k < CNTF(q)), G[n](SUMI(A, q) + k) == E[n](q, k)), patterns=[E[n](q, k)]))
        st.assume(R == 0 if root else R != 0)

    def ensures(S, a, res):
        A = arr(S.eng)
        q, k = z3.Int(fresh_name("q!sk")), z3.Int(fresh_name("k!sk"))
        rng = z3.And(0 <= q, q < P, 0 <= k, k < CNTF(q))
        p = SUMI(A, q) + k
        S.st.assume(sum_unfold(A, q, SUMI))
        out = []
        for n in E:
            v = S.var(n)
            if not isinstance(v, VRef):
                out.append(("%s is a list on every rank" % n, z3.BoolVal(False)))
                continue
            o = S.seq(v)
            e = o.get(p)
            out.append(("%s has one entry per entry of any rank's list" % n, o.len == SUMI(A, P)))
            out.append(("%s[OFF(q) + k] is entry k of rank q's list (rank order; all lists aligned)" % n, z3.Implies(rng, (e.t == E[n](q, k)) if hasattr(e, "t") else z3.BoolVal(False))))
        return out

    c = Contract(qual, {n: (lambda eng, st, n=n: rows(eng, n)(R)) for n in E}, requires=lambda S, a: [("0 <= rank < size", z3.And(0 <= R, R < P))],
                 ensures=ensures, setup=setup, region=region, raises=lambda S, a, e: z3.BoolVal(False))
    c.region_name = "gather / join / broadcast of the parallel lists %s (%s)" % ([n for n in E], "root" if root else "other ranks")
    return c


def _gather_regions(fnode, first_var):
    """maximal runs of statements that start at `X = comm.gather(X, ...)` for X == first_var and end with the last following bcast"""
    out = []

    def scan(body):
        for k, s in enumerate(body):
            if isinstance(s, _ast.Assign) and isinstance(s.value, _ast.Call) and getattr(s.value.func, "attr", None) == "gather" and getattr(s.targets[0], "id", None) == first_var:
                end = k
                for m in range(k, len(body)):
                    t = body[m]
                    is_coll = isinstance(t, _ast.Assign) and isinstance(t.value, _ast.Call) and getattr(t.value.func, "attr", None) in ("gather", "bcast")
                    is_root_if = isinstance(t, _ast.If) and isinstance(t.test, _ast.Compare) and getattr(t.test.left, "id", None) == "rank"
                    if is_coll or is_root_if:
                        end = m
                    else:
                        break
                out.append(body[k:end + 1])
            for ch in _ast.iter_child_nodes(s):
                if isinstance(ch, (_ast.If, _ast.For, _ast.While, _ast.With, _ast.Try)):
                    pass
            for fld in ("body", "orelse", "finalbody"):
                sub = getattr(s, fld, None)
                if isinstance(sub, list) and sub and isinstance(sub[0], _ast.stmt):
                    scan(sub)
    scan(fnode.body)
    return out


def sympy_simplify_gather_contract(which, root=True):
    names = [("change_indices", "int"), ("ref_indices", "int"), ("new_inv_subs", "label")]

    def region(fnode):
        rs = _gather_regions(fnode, "change_indices")
        return rs[which] if which < len(rs) else None
    return parallel_gather_contract("sympy_simplify", region, names, root, label=".%d" % which)


def expand_or_factor_gather_contract(root=True):
    names = [("change_vals", "fn"), ("change_idx", "int")]

    def region(fnode):
        rs = _gather_regions(fnode, "change_vals")
        return rs[0] if rs else None
    return parallel_gather_contract("expand_or_factor", region, names, root)


def _eof_apply_region(fnode):
    for s in reversed(fnode.body):
        if isinstance(s, _ast.For) and any(isinstance(t, _ast.Assign) and isinstance(t.targets[0], _ast.Subscript) and getattr(t.targets[0].value, "id", None) == "all_sym" for t in s.body):
            return [s]
    return None


def expand_or_factor_apply_contract():
    """The loop of expand_or_factor that writes the (joined) changes back: all_sym[keys[change_idx[i]]] = change_vals[i].  With distinct keys
    and every index listed once (each index is handled by exactly one rank, once): afterwards the entry of every listed index holds its new
    value and every other entry of the dictionary is unchanged."""
    NK, NCHG = z3.Int("n_keys"), z3.Int("n_changed")
    GI = z3.Function("joined.idx", I, I)
    GV = z3.Function("joined.val", I, Fn)
    from pyvc.values import HDict
    D0H = z3.Function("all_sym0.has", Label, z3.BoolSort())
    D0V = z3.Function("all_sym0.val", Label, Fn)

    def mk_keys(eng, st):
        v = eng.fresh(T.list(T.label), "keys", st)
        st.heap[v.addr].len = NK
        return v

    def requires(S, a):
        K = S.seq(a["keys"])
        i, j = z3.Ints("i!rq j!rq")
        return [("keys are the (distinct) keys of the dictionary", z3.And(
                    z3.ForAll([i, j], z3.Implies(z3.And(0 <= i, i < j, j < NK), K.get(i).t != K.get(j).t)),
                    z3.ForAll([i], z3.Implies(z3.And(0 <= i, i < NK), D0H(K.get(i).t))))),
                ("every listed index is a position of keys, and is listed once", z3.And(
                    z3.ForAll([i], z3.Implies(z3.And(0 <= i, i < NCHG), z3.And(0 <= GI(i), GI(i) < NK)), patterns=[GI(i)]),
                    z3.ForAll([i, j], z3.Implies(z3.And(0 <= i, i < j, j < NCHG), GI(i) != GI(j)), patterns=[z3.MultiPattern(GI(i), GI(j))]))),
                ("sizes", z3.And(NK >= 0, NCHG >= 0))]

    def state(S, upto):
        d = S.st.heap[S.var("all_sym").addr]
        K = S.seq(S.var("keys"))
        p, s_ = z3.Int(fresh_name("p!ea")), z3.Const(fresh_name("s!ea"), Label)
        listed = z3.Exists([p], z3.And(0 <= p, p < upto, K.get(GI(p)).t == s_))
        return [("the entries of the indices listed so far hold their new values",
                 z3.ForAll([p], z3.Implies(z3.And(0 <= p, p < upto), z3.And(d.has(K.get(GI(p)).t), d.val(K.get(GI(p)).t).t == GV(p))), patterns=[GI(p)])),
                ("every other entry is unchanged (no key appears or disappears)",
                 z3.ForAll([s_], z3.And(d.has(s_) == D0H(s_), z3.Implies(z3.And(D0H(s_), z3.Not(listed)), d.val(s_).t == D0V(s_)))))]

    c = Contract("expand_or_factor", {"all_sym": lambda eng, st: st.alloc(HDict(lambda t: D0H(t), lambda t: VFn(D0V(t)), None)), "keys": mk_keys,
                                      "change_idx": lambda eng, st: st.alloc(HSeq(NCHG, lambda k: VInt(GI(k)), etype=T.int)),
                                      "change_vals": lambda eng, st: st.alloc(HSeq(NCHG, lambda k: VFn(GV(k)), etype=T.fn))},
                 requires=requires, ensures=lambda S, a, r: [("after the loop: " + n, f) for n, f in state(S, NCHG)], region=_eof_apply_region,
                 raises=lambda S, a, e: z3.BoolVal(False))
    c.loop_select = lambda node: LoopSpec(lambda S, st: state(S, S.var("__i").t))
    c.region_name = "writing the joined changes back"
    return c


# ------------------------------------------------------------ check_results: handing out the functions to verify (C13, C03)
SF = z3.Function("shuffled.fun", I, Label)        # function strings after the shuffle (root's list)
SIV = z3.Function("shuffled.inv", I, Fn)          # their rows of the map file
SMT = z3.Function("shuffled.match", I, I)         # their matches


def _cr_dist_region(fnode):
    """from the first `i = utils.split_idx(nfun, rank, size)` to the scatter of inv_subs"""
    a = b = None
    for k, s in enumerate(fnode.body):
        if a is None and isinstance(s, _ast.Assign) and isinstance(s.value, _ast.Call) and getattr(s.value.func, "attr", None) == "split_idx":
            a = k
        if a is not None and isinstance(s, _ast.Assign) and isinstance(s.value, _ast.Call) and getattr(s.value.func, "attr", None) == "scatter" and \
                getattr(s.targets[0], "id", None) == "inv_subs":
            b = k
            break
    return fnode.body[a:b + 1] if a is not None and b is not None else None


def _cr_match_region(fnode):
    """`if rank == 0: matches = ...; matches = matches[shufidx]; matches = np.array_split(matches, size) else: None` and the scatter"""
    for k, s in enumerate(fnode.body):
        if isinstance(s, _ast.Assign) and isinstance(s.value, _ast.Call) and getattr(s.value.func, "attr", None) == "scatter" and getattr(s.targets[0], "id", None) == "matches":
            if k > 0 and isinstance(fnode.body[k - 1], _ast.If):
                return [fnode.body[k - 1], s]
    return None


def check_results_distribute_contract(root=True):
    """Every rank receives the functions (and their map rows) at the positions LO(r) .. LO(r+1)-1 of the root's shuffled list, in order;
    a rank that owns nothing receives empty lists.  (The matches are handed out by np.array_split: see the second contract; both use the same
    slice starts, which is what keeps function i, map i and match i of a rank together.)"""
    NF = z3.Int("nfun")

    def sx(eng, fn, wrapf):
        return lambda q: _row(eng, LENF(q), lambda c, q=q: wrapf(fn(LO(q) + c)))

    def g_scalar(name):
        ne = lambda q: LO(q) < LO(q + 1)
        if name == "imin":
            return lambda q: VInt(z3.If(ne(q), LO(q), 0))
        return lambda q: VInt(z3.If(ne(q), LO(q + 1), 0))

    def m_gather(eng, st, args, kwargs, node):
        name = st.ghost["coll"].get(id(node))
        if name not in ("imin", "imax"):
            raise Unsupported("check_results gathers %r here: no specification in the sidecar" % name)
        g = g_scalar(name)
        same(eng, st, args[0], g(R), "guarantee for gather(%s): the local value is the specified value of this rank" % name, z3.BoolVal(True), node)
        return VMaybeNone(R != 0, st.alloc(HSeq(P, g, etype=T.int)))

    def m_scatter(eng, st, args, kwargs, node):
        name = st.ghost["coll"].get(id(node))
        spec = {"all_fun": sx(eng, SF, VLabel), "inv_subs": sx(eng, SIV, VFn)}.get(name)
        if spec is None:
            raise Unsupported("check_results scatters %r here: no specification in the sidecar" % name)
        same(eng, st, args[0], st.alloc(HSeq(P, spec)), "guarantee for scatter(%s): on the root, piece q is the specified piece of rank q" % name, R == 0, node)
        return spec(R)

    def m_split_idx(eng, st, args, kwargs, node):
        n, r, p = args
        eng.oblige(st, "split_idx is called for (nfun, rank, size)", z3.And(eng.as_int(n) == NF, eng.as_int(r) == R, eng.as_int(p) == P), "spmd", node)
        ne = LO(R) < LO(R + 1)
        return st.alloc(HSeq(z3.If(ne, 2, 0), lambda k: VInt(z3.If(k == 0, LO(R), LO(R + 1) - 1)), etype=T.int))

    def setup(eng, st, args):
        st.env["rank"], st.env["size"] = VInt(R), VInt(P)
        eng.models["utils.split_idx"] = m_split_idx
        eng.models["comm.gather"] = m_gather
        eng.models["comm.scatter"] = m_scatter
        st.ghost["coll"] = _collective_targets(eng.find_function("check_results"))
        eng.axioms += _lo_axioms(NF)
        st.assume(R == 0 if root else R != 0)

    def mk_root_list(fn, wrapf, et):
        def mk(eng, st):
            if root:
                return st.alloc(HSeq(NF, lambda p: wrapf(fn(p)), etype=et))
            return VNone()
        return mk

    def ensures(S, a, res):
        c = z3.Int(fresh_name("c!sk"))
        out = []
        for name, fn in (("all_fun", SF), ("inv_subs", SIV)):
            v = S.var(name)
            if not isinstance(v, VRef):
                out.append(("%s is a list after the scatter" % name, z3.BoolVal(False)))
                continue
            o = S.seq(v)
            out.append(("the rank holds as many entries of %s as its slice has" % name, o.len == LENF(R)))
            out.append(("entry c of the rank's %s is entry LO(rank) + c of the root's shuffled list" % name, z3.Implies(z3.And(0 <= c, c < LENF(R)), o.get(c).t == fn(LO(R) + c))))
        return out

    c = Contract("check_results", {"nfun": lambda e, s: VInt(NF), "all_fun": mk_root_list(SF, VLabel, T.label), "inv_subs": mk_root_list(SIV, VFn, T.fn)},
                 requires=lambda S, a: [("0 <= rank < size, nfun >= 0", z3.And(0 <= R, R < P, NF >= 0))], ensures=ensures, setup=setup, region=_cr_dist_region,
                 raises=lambda S, a, e: z3.BoolVal(False))
    c.region_name = "handing out functions and map rows (%s)" % ("root" if root else "other ranks")
    return c


def check_results_matches_contract(root=True):
    """The matches are read, put in the shuffled order and handed out with np.array_split: rank r receives the matches of the positions
    LO(r) .. LO(r+1)-1 of the shuffled list -- the same positions as its functions and map rows (first contract), so local index i
    means the same function in all three."""
    NF, NALL = z3.Int("nfun"), z3.Int("n_all")
    MR = z3.Function("matches.file", I, I)
    SH = z3.Function("shufidx", I, I)

    def piece(eng, q):
        return _row(eng, LENF(q), lambda c, q=q: VInt(MR(SH(LO(q) + c))), numpy=True, etype=T.int)

    def m_array_split(eng, st, args, kwargs, node):
        a, n = args[0], args[1]
        o = st.heap[a.addr]
        eng.oblige(st, "np.array_split is called for (the nfun shuffled matches, size)", z3.And(o.len == NF, eng.as_int(n) == P), "spmd", node)
        g = o.get
        return st.alloc(HSeq(P, lambda q: _row(eng, LENF(q), lambda c, q=q: g(LO(q) + c), numpy=True, etype=T.int)))

    def m_scatter(eng, st, args, kwargs, node):
        same(eng, st, args[0], st.alloc(HSeq(P, lambda q: piece(eng, q))), "guarantee for scatter(matches): on the root, piece q is the specified piece of rank q", R == 0, node)
        return piece(eng, R)

    def setup(eng, st, args):
        st.env["rank"], st.env["size"] = VInt(R), VInt(P)
        eng.models["np.array_split"] = m_array_split
        eng.models["comm.scatter"] = m_scatter
        eng.models["np.loadtxt"] = lambda e, s, a, k, n: s.alloc(HSeq(NALL, lambda p: VInt(MR(p)), numpy=True, etype=T.int))
        eng.models["np.atleast_1d"] = lambda e, s, a, k, n: a[0]
        eng.axioms += _lo_axioms(NF)
        st.assume(R == 0 if root else R != 0)

    def requires(S, a):
        p = z3.Int("p!rq")
        return [("0 <= rank < size; the shuffled indices are positions of the match file", z3.And(0 <= R, R < P, NF >= 0, NALL >= 0,
                 z3.ForAll([p], z3.Implies(z3.And(0 <= p, p < NF), z3.And(0 <= SH(p), SH(p) < NALL)), patterns=[SH(p)])))]

    def ensures(S, a, res):
        v = S.var("matches")
        c = z3.Int(fresh_name("c!sk"))
        if not isinstance(v, VRef):
            return [("matches is an array after the scatter", z3.BoolVal(False))]
        o = S.seq(v)
        return [("the rank holds as many matches as its slice has", o.len == LENF(R)),
                ("match c of the rank is the match of shuffled position LO(rank) + c", z3.Implies(z3.And(0 <= c, c < LENF(R)), o.get(c).t == MR(SH(LO(R) + c))))]

    c = Contract("check_results", {"shufidx": (lambda e, s: s.alloc(HSeq(NF, lambda p: VInt(SH(p)), numpy=True, etype=T.int))) if root else (lambda e, s: VNone()),
                                   "dirname": T.label, "compl": T.int},
                 requires=requires, ensures=ensures, setup=setup, region=_cr_match_region, raises=lambda S, a, e: z3.BoolVal(False))
    c.region_name = "handing out the matches (%s)" % ("root" if root else "other ranks")
    return c


def _cr_offset_region(fnode):
    """from `to_change = []` to the statement before the loop over the rank's functions (`for i in range(len(all_fun))`)"""
    a = b = None
    for k, s in enumerate(fnode.body):
        if a is None and isinstance(s, _ast.Assign) and getattr(s.targets[0], "id", None) == "to_change" and isinstance(s.value, _ast.List) and not s.value.elts:
            a = k
        if a is not None and isinstance(s, _ast.For) and any(isinstance(c, _ast.Call) and getattr(c.func, "attr", None) == "append" and getattr(c.func.value, "id", None) == "to_change"
                                                             for c in _ast.walk(s)):
            b = k
            break
    return fnode.body[a:b] if a is not None and b is not None and b > a else None


def check_results_offset_contract():
    """What a rank adds to its local index when it reports a function whose map failed the re-substitution test: the rank's functions are the positions
    LO(rank) .. LO(rank+1)-1 of the shuffled list (hand-out contract), so the offset has to be LO(rank) whenever the rank holds a function at all --
    otherwise rank 0 un-merges (and empties the map row of) another function than the one that failed."""
    NF = z3.Int("nfun")

    def m_split_idx(eng, st, args, kwargs, node):
        n, r, p = args
        eng.oblige(st, "split_idx is called for (nfun, rank, size)", z3.And(eng.as_int(n) == NF, eng.as_int(r) == R, eng.as_int(p) == P), "spmd", node)
        ne = LO(R) < LO(R + 1)
        return st.alloc(HSeq(z3.If(ne, 2, 0), lambda k: VInt(z3.If(k == 0, LO(R), LO(R + 1) - 1)), etype=T.int))

    def setup(eng, st, args):
        st.env["rank"], st.env["size"] = VInt(R), VInt(P)
        eng.models["utils.split_idx"] = m_split_idx
        eng.axioms += _lo_axioms(NF)

    def ensures(S, a, res):
        v = S.var("imin")
        if not isinstance(v, VInt):
            return [("imin is an integer before the loop", z3.BoolVal(False))]
        return [("a rank that holds functions reports them with the offset of its slice: imin = LO(rank)", z3.Implies(LO(R) < LO(R + 1), v.t == LO(R)))]

    c = Contract("check_results", {"nfun": lambda e, s: VInt(NF),
                                   "all_fun": lambda e, s: s.alloc(HSeq(LENF(R), lambda c_: VLabel(SF(LO(R) + c_)), etype=T.label)),
                                   "inv_subs": lambda e, s: s.alloc(HSeq(LENF(R), lambda c_: VFn(SIV(LO(R) + c_)), etype=T.fn))},
                 requires=lambda S, a: [("0 <= rank < size, nfun >= 0", z3.And(0 <= R, R < P, NF >= 0))], ensures=ensures, setup=setup, region=_cr_offset_region,
                 raises=lambda S, a, e: z3.BoolVal(False))
    c.region_name = "offset of the reported indices"
    c.live_ins = ("to_change",)
    return c


def check_results_report_obligations(fnode):
    """Structural companion of the offset contract: inside the loop over the rank's functions every record appended to `to_change` is
    `[<loop index> + imin, all_fun[<loop index>]]`, and on the root the gathered indices are mapped back through the shuffle (`r[0] = shufidx[r[0]]`)."""
    if fnode.name != "check_results":
        return []
    out = []
    loop = None
    for s in fnode.body:
        if isinstance(s, _ast.For) and any(isinstance(c, _ast.Call) and getattr(c.func, "attr", None) == "append" and getattr(c.func.value, "id", None) == "to_change" for c in _ast.walk(s)):
            loop = s
            break
    names = {n.id for n in _ast.walk(fnode) if isinstance(n, _ast.Name)}
    if not {"to_change", "imin", "all_fun"} <= names:
        return []            # the sidecar's names are not the code's names any more: nothing is known (the bounded stand-in decides)
    if loop is None:
        return [("check_results reports failed functions by appending to `to_change` inside a loop", False, fnode.lineno)]
    lv = loop.target.id if isinstance(loop.target, _ast.Name) else None
    it = _ast.unparse(loop.iter)
    out.append(("line %d: the loop runs over the rank's own functions (`%s`)" % (loop.lineno, it), it == "range(len(all_fun))" and lv is not None, loop.lineno))
    for c in _ast.walk(loop):
        if isinstance(c, _ast.Call) and getattr(c.func, "attr", None) == "append" and getattr(c.func.value, "id", None) == "to_change":
            arg = c.args[0] if len(c.args) == 1 else None
            ok = isinstance(arg, _ast.List) and len(arg.elts) == 2 and _ast.unparse(arg.elts[0]) in ("%s + imin" % lv, "imin + %s" % lv) and _ast.unparse(arg.elts[1]) == "all_fun[%s]" % lv
            out.append(("line %d: the record is [local index + imin, the function's string] (`%s`)" % (c.lineno, _ast.unparse(arg) if arg is not None else "?"), bool(ok), c.lineno))
    # frame of the loop body: the re-substitution test may raise anywhere (sympy errors, the timeout); what the handler reports must still be the function the
    # iteration started with -- the loop index, imin, the rank's function list and to_change itself are not rebound or modified by anything but the reporting append
    body_nodes = [n for st_ in loop.body for n in _ast.walk(st_)]
    rebind = sorted({(n.id, n.lineno) for n in body_nodes if isinstance(n, _ast.Name) and isinstance(n.ctx, (_ast.Store, _ast.Del)) and n.id in ("imin", lv, "all_fun", "to_change")})
    out.append(("the loop body rebinds neither the loop index, imin, all_fun nor to_change%s" % ((" (found %s)" % rebind) if rebind else ""), not rebind, loop.lineno))
    mut = []
    for n in body_nodes:
        if isinstance(n, _ast.Subscript) and isinstance(n.ctx, (_ast.Store, _ast.Del)) and isinstance(n.value, _ast.Name) and n.value.id in ("all_fun", "to_change"):
            mut.append((n.value.id, n.lineno))
        if isinstance(n, _ast.Call) and isinstance(n.func, _ast.Attribute) and isinstance(n.func.value, _ast.Name) and n.func.value.id in ("all_fun", "to_change") and \
                n.func.attr in ("pop", "remove", "insert", "extend", "clear", "sort", "reverse") :
            mut.append((n.func.value.id, n.lineno))
    out.append(("inside the loop all_fun is only read and to_change only grows by the reporting append%s" % ((" (found %s)" % mut) if mut else ""), not mut, loop.lineno))
    # every path that fails the test ends in the reporting handler: the try statement of the body has one handler, it catches Exception (or everything) and it appends
    tries = [t for t in loop.body if isinstance(t, _ast.Try)]
    ok_try = False
    for t in tries:
        for h in t.handlers:
            catches_all = h.type is None or (isinstance(h.type, _ast.Name) and h.type.id in ("Exception", "BaseException"))
            appends = any(isinstance(c, _ast.Call) and getattr(c.func, "attr", None) == "append" and getattr(c.func.value, "id", None) == "to_change" for b in h.body for c in _ast.walk(b))
            if catches_all and appends and h is t.handlers[0]:
                ok_try = True
    out.append(("a failing re-substitution test (any exception, the timeout included) is reported: the first handler of the loop body's try catches Exception and appends the record", ok_try, loop.lineno))
    back = [n for n in _ast.walk(fnode) if isinstance(n, _ast.Assign) and _ast.unparse(n.targets[0]) == "r[0]" and _ast.unparse(n.value) == "shufidx[r[0]]"]
    out.append(("the gathered positions of the shuffled list are mapped back to positions of the library (`r[0] = shufidx[r[0]]`)", len(back) == 1, back[0].lineno if back else fnode.lineno))
    return out


# ------------------------------------------------------------ initial_sympify: merging the ranks' expression dictionaries (C13, C02)
def _isym_dict_region(fnode):
    """the `if save_sympy:` block inside the last `if parallel:` of initial_sympify"""
    for s in reversed(fnode.body):
        if isinstance(s, _ast.If) and isinstance(s.test, _ast.Name) and s.test.id == "parallel":
            for t in s.body:
                if isinstance(t, _ast.If) and isinstance(t.test, _ast.Name) and t.test.id == "save_sympy" and \
                        any(isinstance(c, _ast.Call) and getattr(c.func, "attr", None) == "bcast" for c in _ast.walk(t)):
                    return [t]
    return None


def initial_sympify_dict_contract():
    """Every rank q holds an ordered dictionary with NKQ(q) entries, key i being KQ(q, i) with value VQ(q, i).  Afterwards sym_fun is, on
    every rank, the dictionary whose keys are exactly the keys of all ranks and whose value for a key is the value of the FIRST entry
    (ranks in order, entries in order) that has this key -- the same on every rank, for every rank count."""
    from pyvc.values import HDict
    NKQ = z3.Function("n_keys", I, I)
    KQ = z3.Function("rank.key", I, I, Label)
    VQ = z3.Function("rank.val", I, I, Fn)
    HASG = z3.Function("some.rank.has", Label, z3.BoolSort())
    FQ = z3.Function("first.rank", Label, I)
    FI = z3.Function("first.index", Label, I)

    def before(q1, i1, q2, i2):
        return z3.Or(q1 < q2, z3.And(q1 == q2, i1 < i2))

    def spec_rows(eng, name):
        if name == "sym_keys":
            return lambda q: _row(eng, NKQ(q), lambda i, q=q: VLabel(KQ(q, i)), etype=T.label)
        return lambda q: _row(eng, NKQ(q), lambda i, q=q: VFn(VQ(q, i)), etype=T.fn)

    def m_bcast(eng, st, args, kwargs, node):
        name = st.ghost["coll"].get(id(node))
        root = kwargs.get("root", args[1] if len(args) > 1 else VInt(0))
        if name not in ("sym_keys", "sym_vals") or not isinstance(root, VInt):
            raise Unsupported("bcast outside the sidecar's specification")
        eng.oblige(st, "bcast(%s): the root is a rank" % name, z3.And(0 <= root.t, root.t < P), "spmd", node)
        b = spec_rows(eng, name)(root.t)
        same(eng, st, args[0], b, "guarantee for bcast(%s): on the root the list sent is the specified one" % name, R == root.t, node)
        return b

    def mk_sym_fun(eng, st):
        keys = _row(eng, NKQ(R), lambda i: VLabel(KQ(R, i)), etype=T.label)
        LH = z3.Function("local.has", Label, z3.BoolSort())
        LV = z3.Function("local.val", Label, Fn)
        i = z3.Int("i!lk")
        eng.axioms.append(z3.ForAll([i], z3.Implies(z3.And(0 <= i, i < NKQ(R)), z3.And(LH(KQ(R, i)), LV(KQ(R, i)) == VQ(R, i))), patterns=[KQ(R, i)]))
        return st.alloc(HDict(lambda t: LH(t), lambda t: VFn(LV(t)), keys, T.label, T.fn))

    def setup(eng, st, args):
        st.env["rank"], st.env["size"] = VInt(R), VInt(P)
        st.env["save_sympy"] = VBool(True)
        eng.models["comm.bcast"] = m_bcast
        st.ghost["coll"] = _collective_targets(eng.find_function("initial_sympify"))

        def m_od(eng_, st_, a, k, n):
            keys = st_.alloc(HSeq(0, lambda k_: VLabel(z3.Const("nokey", Label)), etype=T.label))
            return st_.alloc(HDict(lambda q: z3.BoolVal(False), lambda q: VFn(z3.Const("novalue", Fn)), keys, T.label, T.fn))
        eng.models["OrderedDict"] = m_od
        q, i = z3.Ints("q!ax i!ax")
        s_ = z3.Const("s!ax", Label)
        eng.axioms += [
            z3.ForAll([q], NKQ(q) >= 0, patterns=[NKQ(q)]),
            # FQ / FI: the first (rank, index) holding a key -- a definition (witness of a well-founded minimum)
            z3.ForAll([q, i], z3.Implies(z3.And(0 <= q, q < P, 0 <= i, i < NKQ(q)),
                                         z3.And(HASG(KQ(q, i)), z3.Not(before(q, i, FQ(KQ(q, i)), FI(KQ(q, i)))))), patterns=[KQ(q, i)]),
            z3.ForAll([s_], z3.Implies(HASG(s_), z3.And(0 <= FQ(s_), FQ(s_) < P, 0 <= FI(s_), FI(s_) < NKQ(FQ(s_)), KQ(FQ(s_), FI(s_)) == s_)), patterns=[HASG(s_)]),
        ]

    def dstate(S, r, i):
        d = S.st.heap[S.var("all_sym").addr]
        s_ = z3.Const(fresh_name("s!ds"), Label)
        seen = z3.And(HASG(s_), before(FQ(s_), FI(s_), r, i))
        return z3.ForAll([s_], z3.And(d.has(s_) == seen, z3.Implies(seen, d.val(s_).t == VQ(FQ(s_), FI(s_)))))

    def outer(S, st):
        return [("all_sym holds exactly the keys of the ranks below r, each with the value of its first occurrence", dstate(S, S.var("__i").t, z3.IntVal(0)))]

    def inner(S, st):
        return [("... and of the first i entries of rank r", dstate(S, S.eng.as_int(S.var("r")), S.var("__i").t))]

    def ensures(S, a, res):
        v = S.var("sym_fun")
        if not isinstance(v, VRef) or not isinstance(S.st.heap[v.addr], HDict):
            return [("sym_fun is the merged dictionary", z3.BoolVal(False))]
        d = S.st.heap[v.addr]
        s_ = z3.Const(fresh_name("s!sk"), Label)
        return [("the merged dictionary has exactly the keys of all ranks", d.has(s_) == HASG(s_)),
                ("the value of a key is the value of its first occurrence (ranks in order, entries in order): the same on every rank, whatever the rank count",
                 z3.Implies(HASG(s_), d.val(s_).t == VQ(FQ(s_), FI(s_))))]

    DT = T("dict", T.label, T.fn, True)

    def loop_select(node):
        if isinstance(node, _ast.For) and isinstance(node.target, _ast.Name) and node.target.id == "r":
            return LoopSpec(outer, havoc_types={"all_sym": DT, "sym_keys": T.list(T.label), "sym_vals": T.list(T.fn), "key": T.label, "i": T.int})
        if isinstance(node, _ast.For) and isinstance(node.target, _ast.Name) and node.target.id == "i":
            return LoopSpec(inner, havoc_types={"all_sym": DT, "key": T.label})
        return None

    c = Contract("initial_sympify", {"sym_fun": mk_sym_fun}, requires=lambda S, a: [("0 <= rank < size", z3.And(0 <= R, R < P))], ensures=ensures, setup=setup,
                 region=_isym_dict_region, raises=lambda S, a, e: z3.BoolVal(False))
    c.loop_select = loop_select
    c.region_name = "merging the ranks' expression dictionaries"
    return c
