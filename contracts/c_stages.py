"""Sidecar contracts for the way the fitting stages hand the slice of get_functions to their per-function tables (C14):
row i of every per-rank table belongs to function data_start + i, and every per-rank table has data_end - data_start rows.

get_functions is used through its (separately verified) contract: it returns (fcn_list[ds:de], ds, de) with 0 <= ds <= de <= N,
N the number of lines of the function file."""
import ast
import z3
from pyvc.engine import Contract
from pyvc.values import T, VInt, VFloat, VTuple, VRef, HSeq, HObj, H2D, Unsupported, fresh_name, as_float, fsame

N_ALL, N_UNI = z3.Int("n_all_functions"), z3.Int("n_unique_functions")
DS, DE = z3.Int("data_start"), z3.Int("data_end")


def get_functions_callsite(which):
    """which: 'unique' or 'all' -- the list the call reads (match.main passes unique=False)"""
    N = N_UNI if which == "unique" else N_ALL
    F = z3.Function("fcn_file." + which, z3.IntSort(), z3.DeclareSort("Label") if False else __import__("pyvc.values", fromlist=["Label"]).Label)

    def returns(eng, st, a):
        from pyvc.values import VLabel
        lst = st.alloc(HSeq(DE - DS, lambda k: VLabel(F(DS + k)), etype=T.label))
        st.assume(z3.And(0 <= DS, DS <= DE, DE <= N))
        return VTuple([lst, VInt(DS), VInt(DE)])
    return Contract("test_all.get_functions", {"comp": T.int, "likelihood": T.fn, "unique": (T.bool, VFloat(1))}, returns=returns)


def _stmts_between(fnode, start_pred, end_pred):
    start = end = None
    for k, s in enumerate(fnode.body):
        if start is None and start_pred(s):
            start = k
        if start is not None and end_pred(s):
            end = k
    if start is None or end is None:
        return None
    return fnode.body[start:end + 1]


def _assigns(s, name):
    return isinstance(s, ast.Assign) and any(isinstance(t, ast.Name) and t.id == name for t in s.targets) or \
        (isinstance(s, ast.Assign) and any(isinstance(t, ast.Tuple) and any(getattr(e, "id", None) == name for e in t.elts) for t in s.targets))


def match_prologue_contract():
    """match.main, from the get_functions call to the allocation of the per-rank tables: the chains and matches handed to the loop are
    rows data_start.. of the files (row i <-> function data_start + i) and all tables have one row per function of this rank."""
    SUBS = z3.Function("inv_subs_file.row", z3.IntSort(), __import__("pyvc.values", fromlist=["Fn"]).Fn)
    MATCH = z3.Function("matches_file.row", z3.IntSort(), z3.IntSort())
    MP = z3.Int("ncols")

    def region(fnode):
        return _stmts_between(fnode, lambda s: _assigns(s, "fcn_list_proc"), lambda s: _assigns(s, "params"))

    def setup(eng, st, args):
        from pyvc.values import VFn, VLabel, Label
        eng.contracts["test_all.get_functions"] = get_functions_callsite("all")

        def load_loglike(e, s, a, k, node):
            # split=False: the whole table of the unique functions
            if not (k.get("split") is not None and z3.is_false(z3.simplify(e.truth(k["split"], s)))):
                raise Unsupported("load_loglike is expected to be called with split=False here")
            nl = e.fresh(T.arr(T.float), "negloglike", s)
            s.heap[nl.addr].len = N_UNI
            pm = e.fresh(T.arr2(T.real), "params_meas", s)
            s.heap[pm.addr].rows, s.heap[pm.addr].cols = N_UNI, MP
            return VTuple([nl, pm])
        eng.models["test_all_Fisher.load_loglike"] = load_loglike
        eng.models["simplifier.load_subs"] = lambda e, s, a, k, node: s.alloc(HSeq(N_ALL, lambda q: VFn(SUBS(q)), etype=T.fn))

        def loadtxt(e, s, a, k, node):
            lab = a[0]
            txt = str(lab.t) if hasattr(lab, "t") else getattr(lab, "s", "")
            if "derivs" in txt or "derivs" in ast.dump(node):
                return s.alloc(H2D(N_UNI, z3.Int("nderiv"), lambda r, c: VFloat(z3.Function("derivs_file", z3.IntSort(), z3.IntSort(), z3.RealSort())(r, c)), etype=T.real))
            return s.alloc(HSeq(N_ALL, lambda q: VFloat(z3.ToReal(MATCH(q))), numpy=True, etype=T.real))
        eng.models["np.loadtxt"] = loadtxt
        eng.models["np.atleast_2d"] = lambda e, s, a, k, node: a[0]
        st.env["likelihood"] = st.alloc(HObj("Likelihood", {"fn_dir": VLabel(z3.Const("fn_dir", Label)), "out_dir": VLabel(z3.Const("out_dir", Label))}))
        st.env["comp"] = VInt(z3.Int("comp"))
        st.env["rank"] = VInt(z3.Int("rank"))
        st.env["invsubs_file"] = VLabel(z3.Const("invsubs_file", Label))
        st.env["match_file"] = VLabel(z3.Const("match_file", Label))
        st.assume(z3.And(N_ALL >= 0, N_UNI >= 0, MP >= 1))

    def ensures(S, a, res):
        st = S.st
        n = DE - DS
        i = z3.Int(fresh_name("i!sk"))
        inr = z3.And(0 <= i, i < n)
        out = []
        chains, matches = S.seq(S.var("all_inv_subs_proc")), S.seq(S.var("matches_proc"))
        out.append(("this rank holds one chain and one match per function of its slice", z3.And(chains.len == n, matches.len == n, S.len(S.var("fcn_list_proc")) == n)))
        out.append(("chain i and match i are rows data_start + i of the two library files (the row of function data_start + i)",
                    z3.Implies(inr, z3.And(chains.get(i).t == SUBS(DS + i), matches.get(i).t == MATCH(DS + i)))))
        for nm in ("codelen", "negloglike_all", "index_arr"):
            out.append(("%s has one entry per function of the slice" % nm, S.seq(S.var(nm)).len == n))
        P = st.heap[S.var("params").addr]
        out.append(("params has one row per function of the slice and one column per parameter column of the fit results", z3.And(P.rows == n, P.cols == MP)))
        return out

    c = Contract("main", {}, ensures=ensures, setup=setup, region=region, raises=lambda S, a, e: z3.BoolVal(False))
    c.region_name = "prologue: the slice of get_functions applied to chains, matches and tables"
    return c


def combine_prologue_contract():
    """combine_DL.main, from the get_functions call to xarr_proc: xarr_proc[i] = data_start + i (the unique function the i-th row of this
    rank stands for) and every per-rank table has data_end - data_start rows."""
    def region(fnode):
        return _stmts_between(fnode, lambda s: _assigns(s, "fcn_list_proc"), lambda s: _assigns(s, "xarr_proc"))

    def setup(eng, st, args):
        from pyvc.values import VLabel, Label
        eng.contracts["test_all.get_functions"] = get_functions_callsite("unique")
        st.env["comp"] = VInt(z3.Int("comp"))
        st.env["likelihood"] = st.alloc(HObj("Likelihood", {}))
        fl = eng.fresh(T.list(T.label), "fcn_list", st)
        st.heap[fl.addr].len = N_UNI
        st.env["fcn_list"] = fl
        pr = eng.fresh(T.arr2(T.real), "params", st)
        st.env["params"] = pr
        st.ghost["pcols"] = st.heap[pr.addr].cols
        st.assume(N_UNI >= 0)

    def ensures(S, a, res):
        st = S.st
        n = DE - DS
        i = z3.Int(fresh_name("i!sk"))
        xp = S.seq(S.var("xarr_proc"))
        out = [("xarr_proc has one entry per function of the slice", z3.And(xp.len == n, S.len(S.var("fcn_list_proc")) == n)),
               ("xarr_proc[i] = data_start + i: row i of this rank stands for unique function data_start + i", z3.Implies(z3.And(0 <= i, i < n), xp.get(i).t == DS + i))]
        for nm in ("DL_min", "negloglike_min", "codelen_min", "aifeyn_min", "fcn_min"):
            out.append(("%s has one entry per function of the slice" % nm, S.seq(S.var(nm)).len == n))
        P = st.heap[S.var("params_min").addr]
        out.append(("params_min has one row per function of the slice and the parameter columns of the input", z3.And(P.rows == n, P.cols == st.ghost["pcols"])))
        return out

    c = Contract("main", {}, ensures=ensures, setup=setup, region=region, raises=lambda S, a, e: z3.BoolVal(False))
    c.region_name = "prologue: the slice of get_functions applied to the per-rank tables"
    return c


def load_loglike_contract(split):
    """test_all_Fisher.load_loglike: with split=True rows data_start..data_end-1 of the result file (likelihood column and parameter columns,
    row i <-> function data_start + i), with split=False the whole file."""
    NR, NC = z3.Int("file_rows"), z3.Int("file_cols")
    FILE = z3.Function("negloglike_file", z3.IntSort(), z3.IntSort(), z3.RealSort())

    def setup(eng, st, args):
        eng.models["np.genfromtxt"] = lambda e, s, a, k, node: s.alloc(H2D(NR, NC, lambda r, c: VFloat(FILE(r, c)), etype=T.real))
        eng.models["np.atleast_2d"] = lambda e, s, a, k, node: a[0]
        st.env["rank"] = VInt(z3.Int("rank"))
        from pyvc.values import VBool
        st.env["split"] = VBool(split)

    def requires(S, a):
        return [("the file has at least two rows and a likelihood column plus parameter columns", z3.And(NR >= 2, NC >= 2)),
                ("0 <= data_start <= data_end <= rows", z3.And(0 <= a["data_start"].t, a["data_start"].t <= a["data_end"].t, a["data_end"].t <= NR))]

    def ensures(S, a, res):
        if not (isinstance(res, VTuple) and len(res.items) == 2):
            raise Unsupported("load_loglike no longer returns a pair")
        nl, pm = S.seq(res.items[0]), S.st.heap[res.items[1].addr]
        ds, de = a["data_start"].t, a["data_end"].t
        i, c = z3.Int(fresh_name("i!sk")), z3.Int(fresh_name("c!sk"))
        off = ds if split else z3.IntVal(0)
        n = (de - ds) if split else NR
        return [("one likelihood and one parameter row per function%s" % (" of the slice" if split else ""), z3.And(nl.len == n, pm.rows == n, pm.cols == NC - 1)),
                ("entry i is row %s of the file: likelihood = column 0, parameters = the other columns" % ("data_start + i" if split else "i"),
                 z3.Implies(z3.And(0 <= i, i < n, 0 <= c, c < NC - 1), z3.And(as_float(nl.get(i)).val == FILE(off + i, z3.IntVal(0)), as_float(pm.get(i, c)).val == FILE(off + i, c + 1))))]

    c = Contract("load_loglike", {"comp": T.int, "likelihood": lambda e, s: s.alloc(HObj("Likelihood", {"out_dir": __import__("pyvc.values", fromlist=["VLabel"]).VLabel(z3.Const("out_dir", __import__("pyvc.values", fromlist=["Label"]).Label))})),
                                  "data_start": T.int, "data_end": T.int, "split": (T.bool,)},
                 requires=requires, ensures=ensures, setup=setup, raises=lambda S, a, e: z3.BoolVal(False))
    return c


# ------------------------------------------------------------ per-rank files and their concatenation (structural, on the AST)
def concat_obligations(fnode):
    """For a stage main(): (i) every np.savetxt target is a per-rank file (its name contains str(rank)); (ii) for every such file pattern
    rank 0 joins the per-rank files with `cat `find ... -name "<pattern>_*.dat" | sort -V` > <output>` -- version sort = numeric order of the
    rank suffix (A-shell) -- and (iii) removes them afterwards.  Returns [(description, ok, line)]."""
    def consts(n):
        return [c.value for c in ast.walk(n) if isinstance(c, ast.Constant) and isinstance(c.value, str)]

    def has_rank(n):
        return any(isinstance(c, ast.Call) and getattr(c.func, "id", None) == "str" and c.args and getattr(c.args[0], "id", None) == "rank" for c in ast.walk(n))
    out = []
    saves = []
    for n in ast.walk(fnode):
        if isinstance(n, ast.Call) and getattr(n.func, "attr", None) == "savetxt" and n.args:
            cs = consts(n.args[0])
            prefix = max(cs, key=len) if cs else ""
            per_rank = has_rank(n.args[0])
            if "temp_dir" in ast.dump(n.args[0]) or per_rank:
                out.append(("file written by np.savetxt at line %d ('%s...') carries the rank in its name (one file per rank)" % (n.lineno, prefix.strip("/")), per_rank, n.lineno))
                saves.append((prefix.strip("/").rstrip("_"), n.lineno))
    systems = []
    strings = {}
    for n in ast.walk(fnode):
        if isinstance(n, ast.Assign) and len(n.targets) == 1 and isinstance(n.targets[0], ast.Name):
            strings.setdefault(n.targets[0].id, []).append(n)
    for n in ast.walk(fnode):
        if isinstance(n, ast.Call) and getattr(n.func, "attr", None) == "system" and n.args:
            arg = n.args[0]
            txt = " ".join(consts(arg))
            if isinstance(arg, ast.Name):
                # the string assigned last before this call
                prev = [a for a in strings.get(arg.id, []) if a.lineno < n.lineno]
                if prev:
                    txt = " ".join(consts(max(prev, key=lambda a: a.lineno).value))
            systems.append((txt, n.lineno))
    for prefix, line in saves:
        key = prefix.split("'")[0]
        cat = [t for t, l in systems if "cat" in t and key in t]
        ok = any("sort -V" in t and "find" in t and ">" in t and ">>" not in t for t in cat)
        out.append(("per-rank files '%s_*' are joined by `cat $(find ... | sort -V) > out` (rank order)" % key, ok, line))
        rm = [t for t, l in systems if (" rm " in " " + t + " " or t.strip().startswith("rm")) and "cat" not in t and key in t]
        out.append(("per-rank files '%s_*' are removed after the join" % key, bool(rm), line))
    return out


# ------------------------------------------------------------ column layout of the per-rank tables (writers) and of their readers
def table_writer_contract(head, matrix_name="params", out_name="out_arr", which=0):
    """`out_arr = np.transpose(np.vstack([<head arrays>] + [params[:,i] for i in range(...)]))`: one row per function of this rank, the head arrays as the
    first columns in the given order, then the columns of the parameter table."""
    NPR, K = z3.Int("NP"), z3.Int("K")
    H = len(head)

    def region(fnode):
        hits = [s for s in fnode.body if isinstance(s, ast.Assign) and len(s.targets) == 1 and getattr(s.targets[0], "id", None) == out_name]
        return [hits[which]] if len(hits) > which else None

    def arr(name):
        def mk(eng, st):
            v = eng.fresh(T.arr(T.float), name, st)
            st.heap[v.addr].len = NPR
            return v
        return mk

    def mk_m(eng, st):
        v = eng.fresh(T.arr2(T.float), matrix_name, st)
        st.heap[v.addr].rows, st.heap[v.addr].cols = NPR, K
        return v

    def setup(eng, st, args):
        st.env["max_param"] = VInt(K)

    def ensures(S, a, res):
        O = S.st.heap[S.var(out_name).addr]
        PM = S.st.heap[a[matrix_name].addr]
        r, c = z3.Int(fresh_name("r!sk")), z3.Int(fresh_name("c!sk"))
        inr = z3.And(0 <= r, r < NPR)
        out = [("one row per function of this rank, %d + K columns" % H, z3.And(O.rows == NPR, O.cols == K + H))]
        for k_, nm in enumerate(head):
            out.append(("column %d is %s" % (k_, nm), z3.Implies(inr, fsame(as_float(O.get(r, z3.IntVal(k_))), as_float(S.seq(a[nm]).get(r))))))
        out.append(("columns %d.. are the columns of %s" % (H, matrix_name), z3.Implies(z3.And(inr, 0 <= c, c < K), fsame(as_float(O.get(r, H + c)), as_float(PM.get(r, c))))))
        return out

    params = {nm: arr(nm) for nm in head}
    params[matrix_name] = mk_m
    c = Contract("main", params, requires=lambda S, a: [("sizes", z3.And(NPR >= 0, K >= 0))], ensures=ensures, setup=setup, region=region, raises=lambda S, a, e: z3.BoolVal(False))
    c.region_name = "layout of %s: %s | %s columns" % (out_name, " | ".join(head), matrix_name)
    return c


def combine_reader_contract():
    """combine_DL.main reads codelen_matches_comp<n>.dat as  -logL | codelen | unique index | parameter columns  (the layout match.main writes)."""
    NR, NC = z3.Int("rows"), z3.Int("cols")
    FILE = z3.Function("codelen_matches_table", z3.IntSort(), z3.IntSort(), z3.RealSort())

    def region(fnode):
        start = end = None
        for k, s in enumerate(fnode.body):
            if start is None and _assigns(s, "data"):
                start = k
            if start is not None and _assigns(s, "params"):
                end = k
                break
        return fnode.body[start:end + 1] if start is not None and end is not None else None

    def setup(eng, st, args):
        from pyvc.values import VLabel, Label
        eng.models["np.genfromtxt"] = lambda e, s, a, k, node: s.alloc(H2D(NR, NC, lambda r, c: VFloat(FILE(r, c)), etype=T.real))
        st.env["likelihood"] = st.alloc(HObj("Likelihood", {"out_dir": VLabel(z3.Const("out_dir", Label))}))
        st.env["comp"] = VInt(z3.Int("comp"))
        st.assume(z3.And(NR >= 2, NC >= 3))

    def ensures(S, a, res):
        st = S.st
        r, c = z3.Int(fresh_name("r!sk")), z3.Int(fresh_name("c!sk"))
        inr = z3.And(0 <= r, r < NR)
        PM = st.heap[S.var("params").addr]
        g = lambda nm: as_float(S.seq(S.var(nm)).get(r)).val
        return [("-logL = column 0, codelen = column 1, unique index = column 2, parameters = the remaining columns",
                 z3.And(PM.rows == NR, PM.cols == NC - 3,
                        z3.Implies(inr, z3.And(g("negloglike") == FILE(r, z3.IntVal(0)), g("codelen") == FILE(r, z3.IntVal(1)), g("index") == FILE(r, z3.IntVal(2)),
                                               z3.Implies(z3.And(0 <= c, c < NC - 3), as_float(PM.get(r, c)).val == FILE(r, 3 + c))))))]

    c = Contract("main", {}, ensures=ensures, setup=setup, region=region, raises=lambda S, a, e: z3.BoolVal(False))
    c.region_name = "reader of the match table"
    return c
