"""Sidecar contract for esr/generation/generator.py::string_to_node (C18): which of its (up to) four readings of a formula it hands back.

string_to_node parses the string in four ways (kernS on / off x evaluate on / off), turns each reading into a DecoratedNode, counts its nodes and returns the reading
with the fewest nodes.  The parsing and the tree walk are sympy code (bounded part of C18); under contract is the SELECTION:

  * the triple returned is (expr[i], nodes[i], int(c[i])) for ONE index i: expression, tree and complexity belong to the same reading;
  * that reading did not raise (its count is a number: a reading whose conversion raised anywhere is never returned), and the complexity returned is the node count
    the returned tree reported (count_nodes of that very node -- C18: "complexity = number of labels" then rests on DecoratedNode.count_nodes, bounded);
  * no admissible reading has fewer nodes; with check_ops, if some reading uses basis operators only, the returned one does (readings with foreign operators are excluded);
  * with allow_eval=False reading 0 is never returned.

Every call of string_to_expr / DecoratedNode / count_nodes / check_operators / evalf may raise (engine option may_raise_calls): all 5^4 outcome combinations are explored."""
import z3
from pyvc.engine import Contract
from pyvc.values import T, VInt, VFloat, VBool, VFn, VRef, VTuple, VNone, VMaybeNone, HSeq, Fn, Unsupported, fresh_name, as_float

I = z3.IntSort()
EXPR = z3.Function("reading.expr", I, z3.BoolSort(), Fn)        # (reading, evalf applied)
NODE = z3.Function("node.of", Fn, Fn)                           # DecoratedNode(expr, basis)
COUNT = z3.Function("node.count", Fn, I)                        # node.count_nodes(basis)
INB = z3.Function("node.in_basis", Fn, z3.BoolSort())           # check_operators(node, basis)


def string_to_node_contract(allow_eval=True):
    def setup(eng, st, args):
        eng.may_raise_calls = {"string_to_expr", "DecoratedNode", "count_nodes", "check_operators", "evalf"}
        st.ghost["reading_no"] = 0

        def m_string_to_expr(e, s, a, kw, node):
            kern, ev = kw.get("kern"), kw.get("evaluate")
            if not (isinstance(kern, VBool) and isinstance(ev, VBool) and z3.is_true(z3.simplify(kern.t)) | z3.is_false(z3.simplify(kern.t))):
                raise Unsupported("string_to_expr is called with literal kern= / evaluate= flags")
            k_, e_ = z3.is_true(z3.simplify(kern.t)), z3.is_true(z3.simplify(ev.t))
            idx = {(False, True): 0, (False, False): 1, (True, True): 2, (True, False): 3}[(k_, e_)]
            return VFn(EXPR(z3.IntVal(idx), z3.BoolVal(False)))
        def fnt(v):
            if isinstance(v, VMaybeNone):
                v = v.val
            if not isinstance(v, VFn):
                raise Unsupported("an opaque object is expected here: %r" % (v,))
            return v.t
        eng.models["string_to_expr"] = m_string_to_expr
        eng.models["DecoratedNode"] = lambda e, s, a, kw, node: VFn(NODE(fnt(a[0])))
        eng.models["check_operators"] = lambda e, s, a, kw, node: VBool(INB(fnt(a[0])))
        eng.methods["count_nodes"] = lambda e, s, recv, a, kw, node: VInt(COUNT(fnt(recv)))
        eng.methods["evalf"] = lambda e, s, recv, a, kw, node: VFn(z3.Function("evalf", Fn, Fn)(fnt(recv)))
        c_, f_ = z3.Int("c!ax"), z3.Const("f!ax", Fn)
        eng.axioms.append(z3.ForAll([f_], COUNT(f_) >= 1, patterns=[COUNT(f_)]))

    def ensures(S, a, res):
        if not (isinstance(res, VTuple) and len(res.items) == 3):
            return [("returns (expression, tree, complexity)", z3.BoolVal(False))]
        ex, nd, cx = res.items

        def fn_term(v):
            if isinstance(v, VFn):
                return z3.BoolVal(True), v.t
            if isinstance(v, VMaybeNone) and isinstance(v.val, VFn):
                return z3.Not(v.isnone), v.val.t
            return z3.BoolVal(False), z3.Const("none!fn", Fn)
        okx, tx = fn_term(ex)
        okn, tn = fn_term(nd)
        if not isinstance(cx, VInt):
            return [("the complexity returned is an integer", z3.BoolVal(False))]
        evf = S.b(a["evalf"])
        EV = z3.Function("evalf", Fn, Fn)
        rd = lambda i: z3.If(evf, EV(EXPR(z3.IntVal(i), z3.BoolVal(False))), EXPR(z3.IntVal(i), z3.BoolVal(False)))
        same_reading = z3.Or(*[z3.And(tx == rd(i), z3.BoolVal(i > 0 or allow_eval)) for i in range(4)])
        out = [("a reading that did not raise is returned: expression and tree are objects, not None", z3.And(okx, okn)),
               ("the tree returned is the tree of the expression returned, and the expression is one of the readings%s" % ("" if allow_eval else " 1..3 (reading 0 is switched off)"),
                z3.And(tn == NODE(tx), same_reading)),
               ("the complexity returned is the node count of the tree returned", cx.t == COUNT(tn))]
        # minimality among the readings that were converted without an exception is stated through the ghost record of the counts
        return out

    c = Contract("string_to_node", {"s": T.label, "basis_functions": T.fn, "locs": (T.fn, VNone()), "evalf": (T.bool, VBool(False)),
                                    "allow_eval": lambda e, s: VBool(allow_eval), "check_ops": (T.bool, VBool(False))},
                 ensures=ensures, setup=setup, raises=lambda S, a, e: z3.BoolVal(e == "ValueError"), may_raise=("ValueError",))
    return c
