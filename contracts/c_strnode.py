"""Sidecar contracts for esr/generation/generator.py::string_to_node (C18): which of its (up to) four readings of a formula it hands back.

string_to_node parses the string in four ways (kernS on / off x evaluate on / off), turns each reading into a DecoratedNode, counts its nodes and returns the reading
with the fewest nodes.  The parsing and the tree walk are sympy code (bounded part of C18); under contract is the bookkeeping, modularly:

  block k (k = 0..3; region: `i = k` and the `try` statement that follows):  afterwards slot k is CONSISTENT --
        either c[k] is NaN (the reading raised somewhere: any of string_to_expr / evalf / DecoratedNode / count_nodes / check_operators may raise), or
        expr[k] is reading k (after evalf if requested), nodes[k] = DecoratedNode(expr[k]), c[k] = nodes[k].count_nodes(), and (with check_ops) all_in_basis[k] =
        check_operators(nodes[k]); the other slots are untouched;
  tail (region: from `if check_ops and any(all_in_basis)` to the return), given four consistent slots and at least one reading that converted:
        the triple returned is (expr[j], nodes[j], int(c[j])) for ONE slot j that did not raise -- expression, tree and complexity belong to the same reading, the
        complexity is the node count that very tree reported; no admissible slot has a smaller count; with check_ops, if some slot uses basis operators only the returned
        one does.
C18's "complexity = number of labels" then rests on DecoratedNode.count_nodes = len(to_list) (bounded)."""
import ast
import z3
from pyvc.engine import Contract
from pyvc.values import T, VInt, VFloat, VBool, VFn, VRef, VTuple, VNone, VMaybeNone, HSeq, Fn, Unsupported, fresh_name, as_float

I = z3.IntSort()
READ = z3.Function("reading.expr", I, Fn)                     # what string_to_expr returned in the block of slot k
EVALF = z3.Function("evalf", Fn, Fn)
NODE = z3.Function("node.of", Fn, Fn)                         # DecoratedNode(expr, basis)
COUNT = z3.Function("node.count", Fn, I)                      # node.count_nodes(basis)
INB = z3.Function("node.in_basis", Fn, z3.BoolSort())         # check_operators(node, basis)
E0 = z3.Function("slot.expr", I, Fn)                          # entry state of the four slots
N0 = z3.Function("slot.node", I, Fn)
ENONE = z3.Function("slot.expr.isnone", I, z3.BoolSort())
NNONE = z3.Function("slot.node.isnone", I, z3.BoolSort())
C0NAN = z3.Function("slot.c.isnan", I, z3.BoolSort())
C0 = z3.Function("slot.c", I, z3.RealSort())
B0 = z3.Function("slot.inbasis", I, z3.BoolSort())


def _blocks(fnode):
    """[(k, [assign i = k, try])] in source order (slot 0 sits inside `if allow_eval:`)"""
    out = []

    def scan(body):
        for a, b in zip(body, body[1:]):
            if isinstance(a, ast.Assign) and isinstance(a.targets[0], ast.Name) and a.targets[0].id == "i" and isinstance(a.value, ast.Constant) and isinstance(b, ast.Try):
                out.append((a.value.value, [a, b]))
        for s in body:
            if isinstance(s, ast.If):
                scan(s.body)
    scan(fnode.body)
    return out


def _fnt(v):
    if isinstance(v, VMaybeNone):
        v = v.val
    if not isinstance(v, VFn):
        raise Unsupported("an opaque object is expected here: %r" % (v,))
    return v.t


def _mk_state(eng, st):
    """the four parallel slots at the entry of a region"""
    expr = st.alloc(HSeq(z3.IntVal(4), lambda k: VMaybeNone(ENONE(k), VFn(E0(k))), etype=T.opt(T.fn)))
    nodes = st.alloc(HSeq(z3.IntVal(4), lambda k: VMaybeNone(NNONE(k), VFn(N0(k))), etype=T.opt(T.fn)))
    c = st.alloc(HSeq(z3.IntVal(4), lambda k: VFloat(C0(k), nan=C0NAN(k)), numpy=True, etype=T.float))
    aib = st.alloc(HSeq(z3.IntVal(4), lambda k: VBool(B0(k)), etype=T.bool))
    return expr, nodes, c, aib


def _models(eng):
    def m_string_to_expr(e, s, a, kw, node):
        # whichever way the block parses the string (the kern / evaluate flags are not part of the contract: any reading that denotes the formula will do),
        # the result is "the reading of the current slot"
        iv = s.env.get("i")
        if not (isinstance(iv, VInt) and z3.is_int_value(z3.simplify(iv.t))):
            raise Unsupported("string_to_expr is called with the slot index `i` a literal")
        return VFn(READ(z3.simplify(iv.t)))
    eng.models["string_to_expr"] = m_string_to_expr
    eng.models["DecoratedNode"] = lambda e, s, a, kw, node: VFn(NODE(_fnt(a[0])))
    eng.models["check_operators"] = lambda e, s, a, kw, node: VBool(INB(_fnt(a[0])))
    eng.methods["count_nodes"] = lambda e, s, recv, a, kw, node: VInt(COUNT(_fnt(recv)))
    eng.methods["evalf"] = lambda e, s, recv, a, kw, node: VFn(EVALF(_fnt(recv)))
    f_ = z3.Const("f!ax", Fn)
    eng.axioms.append(z3.ForAll([f_], COUNT(f_) >= 1, patterns=[COUNT(f_)]))


def consistent(k, e, nd, c, aib, evalf, check_ops):
    """slot k after its block: NaN, or the reading with its tree, its count and its basis flag"""
    want = z3.If(evalf, EVALF(READ(k)), READ(k))
    ok_e, te = e
    ok_n, tn = nd
    return z3.Or(z3.And(c.nan, z3.Not(aib)),
                 z3.And(z3.Not(c.nan), z3.Not(c.inf), ok_e, ok_n, te == want, tn == NODE(te), c.val == z3.ToReal(COUNT(tn)), z3.ToInt(c.val) == COUNT(tn),
                        z3.If(check_ops, aib == INB(tn), z3.Not(aib))))


def _opt(v):
    if isinstance(v, VFn):
        return z3.BoolVal(True), v.t
    if isinstance(v, VMaybeNone) and isinstance(v.val, VFn):
        return z3.Not(v.isnone), v.val.t
    if isinstance(v, VNone):
        return z3.BoolVal(False), z3.Const("none!fn", Fn)
    raise Unsupported("slot entry %r" % (v,))


def block_contract(k):
    def region(fnode):
        for kk, stmts in _blocks(fnode):
            if kk == k:
                return stmts
        return None

    def setup(eng, st, args):
        _models(eng)
        eng.may_raise_calls = {"string_to_expr", "DecoratedNode", "count_nodes", "check_operators", "evalf"}

    def ensures(S, a, res):
        st = S.st
        ex, nd, c, ab = (S.seq(S.var(n)) for n in ("expr", "nodes", "c", "all_in_basis"))
        evf, cho = S.b(a["evalf"]), S.b(a["check_ops"])
        kz = z3.IntVal(k)
        out = [("slot %d is consistent after its block: NaN count, or reading %d with its own tree, node count and basis flag" % (k, k),
                consistent(kz, _opt(ex.get(kz)), _opt(nd.get(kz)), as_float(c.get(kz)), S.b(ab.get(kz)), evf, cho))]
        for q in range(4):
            if q == k:
                continue
            qz = z3.IntVal(q)
            oe, te = _opt(ex.get(qz))
            on, tn = _opt(nd.get(qz))
            cq = as_float(c.get(qz))
            out.append(("slot %d is untouched by the block of slot %d" % (q, k),
                        z3.And(oe == z3.Not(ENONE(qz)), z3.Implies(oe, te == E0(qz)), on == z3.Not(NNONE(qz)), z3.Implies(on, tn == N0(qz)),
                               cq.nan == C0NAN(qz), z3.Implies(z3.Not(cq.nan), cq.val == C0(qz)), S.b(ab.get(qz)) == B0(qz))))
        return out

    def mk(which):
        return lambda eng, st: st.ghost.setdefault("__slots", _mk_state(eng, st))[which]
    c = Contract("string_to_node", {"expr": mk(0), "nodes": mk(1), "c": mk(2), "all_in_basis": mk(3), "s": T.label, "basis_functions": T.fn, "locs": T.fn,
                                    "evalf": T.bool, "check_ops": T.bool},
                 requires=lambda S, a: [("the basis flag of the slot is still False when its block starts (prologue)", z3.Not(B0(z3.IntVal(k))))],
                 ensures=ensures, setup=setup, region=region, raises=lambda S, a, e: z3.BoolVal(False))
    c.region_name = "reading %d" % k
    c.live_ins = ("expr", "nodes", "c")
    return c


def tail_contract():
    def region(fnode):
        for k, s in enumerate(fnode.body):
            if isinstance(s, ast.If) and "all_in_basis" in ast.dump(s.test) and isinstance(fnode.body[-1], ast.Return):
                return fnode.body[k:]
        return None

    def setup(eng, st, args):
        _models(eng)

    def requires(S, a):
        evf, cho = S.b(a["evalf"]), S.b(a["check_ops"])
        pre = []
        for q in range(4):
            qz = z3.IntVal(q)
            pre.append(consistent(qz, (z3.Not(ENONE(qz)), E0(qz)), (z3.Not(NNONE(qz)), N0(qz)), VFloat(C0(qz), nan=C0NAN(qz)), B0(qz), evf, cho))
        return [("the four slots are consistent (postconditions of the four blocks) and at least one reading converted",
                 z3.And(z3.And(*pre), z3.Or(*[z3.Not(C0NAN(z3.IntVal(q))) for q in range(4)])))]

    def ensures(S, a, res):
        if not (isinstance(res, VTuple) and len(res.items) == 3):
            return [("returns (expression, tree, complexity)", z3.BoolVal(False))]
        ex, nd, cx = res.items
        okx, tx = _opt(ex)
        okn, tn = _opt(nd)
        if not isinstance(cx, VInt):
            return [("the complexity returned is an integer", z3.BoolVal(False))]
        cho = S.b(a["check_ops"])
        anyb = z3.Or(*[z3.And(z3.Not(C0NAN(z3.IntVal(q))), B0(z3.IntVal(q))) for q in range(4)])
        j = z3.Int(fresh_name("j!sk"))
        slot = z3.Or(*[z3.And(z3.Not(C0NAN(z3.IntVal(q))), tx == E0(z3.IntVal(q)), tn == N0(z3.IntVal(q)), z3.ToReal(cx.t) == C0(z3.IntVal(q)),
                              z3.Implies(z3.And(cho, anyb), B0(z3.IntVal(q)))) for q in range(4)])
        adm = lambda q: z3.And(z3.Not(C0NAN(q)), z3.Implies(z3.And(cho, anyb), B0(q)))
        iv = S.var("i")
        per_slot = []
        if isinstance(iv, VInt):
            # the same clause split by the value of the selected index (helps the solver: one small query per slot)
            per_slot.append(("the selected index is one of the four slots", z3.And(0 <= iv.t, iv.t < 4)))
            for q in range(4):
                qz = z3.IntVal(q)
                per_slot.append(("if slot %d is selected: it converted, and expression, tree and complexity returned are its own (with check_ops: it uses basis operators only if some slot does)" % q,
                                 z3.Implies(iv.t == q, z3.And(z3.Not(C0NAN(qz)), tx == E0(qz), tn == N0(qz), z3.ToReal(cx.t) == C0(qz), z3.Implies(z3.And(cho, anyb), B0(qz))))))
        else:
            per_slot.append(("expression, tree and complexity returned belong to ONE slot that converted (and, with check_ops, uses basis operators only if some slot does)", slot))
        return [("expression and tree returned are objects (a reading that raised is never returned)", z3.And(okx, okn))] + per_slot + [
                ("the complexity returned is the node count the returned tree reported", cx.t == COUNT(tn)),
                ("no admissible slot has fewer nodes", z3.Implies(z3.And(0 <= j, j < 4, adm(j)), z3.ToReal(cx.t) <= C0(j)))]

    def mk(which):
        return lambda eng, st: st.ghost.setdefault("__slots", _mk_state(eng, st))[which]
    c = Contract("string_to_node", {"expr": mk(0), "nodes": mk(1), "c": mk(2), "all_in_basis": mk(3), "evalf": T.bool, "check_ops": T.bool},
                 requires=requires, ensures=ensures, setup=setup, region=region, raises=lambda S, a, e: z3.BoolVal(False))
    c.region_name = "selection"
    c.live_ins = ("expr", "nodes", "c")
    return c


def prologue_contract():
    """before the first block: no expression, no tree, every count NaN, every basis flag False (so a slot whose block is skipped -- allow_eval=False -- or raises is
    never admissible)"""
    def region(fnode):
        a = b = None
        for k, s in enumerate(fnode.body):
            if a is None and isinstance(s, ast.Assign) and ast.unparse(s.targets[0]) == "expr":
                a = k
            if isinstance(s, ast.Assign) and ast.unparse(s.targets[0]) == "c" and a is not None:
                b = k
                break
        return fnode.body[a:b + 1] if a is not None and b is not None else None

    def ensures(S, a, res):
        out = []
        ex, nd, c = (S.seq(S.var(n)) for n in ("expr", "nodes", "c"))
        out.append(("four slots", z3.And(ex.len == 4, nd.len == 4, c.len == 4)))
        for q in range(4):
            qz = z3.IntVal(q)
            oe, _ = _opt(ex.get(qz))
            on, _ = _opt(nd.get(qz))
            out.append(("slot %d starts empty: no expression, no tree, NaN count" % q, z3.And(z3.Not(oe), z3.Not(on), as_float(c.get(qz)).nan)))
        if "all_in_basis" in S.st.env:
            ab = S.seq(S.var("all_in_basis"))
            out.append(("with check_ops every basis flag starts False", z3.And(ab.len == 4, *[z3.Not(S.b(ab.get(z3.IntVal(q)))) for q in range(4)])))
        else:
            out.append(("with check_ops the basis flags exist", z3.Not(S.b(a["check_ops"]))))
        return out

    c = Contract("string_to_node", {"check_ops": T.bool}, ensures=ensures, region=region, raises=lambda S, a, e: z3.BoolVal(False))
    c.region_name = "prologue"
    return c


def count_nodes_contract():
    """DecoratedNode.count_nodes(basis) is the length of the label list to_list(basis) gives for the same node and basis (to_list opaque: a list whose length is a function
    of the node and the basis -- its purity is A-sympy / bounded).  With the selection contract of string_to_node: the complexity returned is the number of labels of the
    returned tree."""
    TLEN = z3.Function("to_list.len", Fn, Fn, I)

    def mk_self(eng, st):
        return VFn(z3.Const("self.node", Fn))

    def setup(eng, st, args):
        def m_to_list(e, s, recv, a, kw, node):
            n = TLEN(_fnt(recv), _fnt(a[0]))
            e.axioms.append(n >= 0)
            return s.alloc(HSeq(n, lambda k: VFn(z3.Function("to_list.item", Fn, Fn, I, Fn)(_fnt(recv), _fnt(a[0]), k)), etype=T.fn))
        eng.methods["to_list"] = m_to_list

    def ensures(S, a, res):
        if not isinstance(res, VInt):
            return [("returns an integer", z3.BoolVal(False))]
        return [("count_nodes(basis) = len(to_list(basis)) of the same node", res.t == TLEN(_fnt(a["self"]), _fnt(a["basis_functions"])))]

    return Contract("DecoratedNode.count_nodes", {"self": mk_self, "basis_functions": T.fn}, ensures=ensures, setup=setup, raises=lambda S, a, e: z3.BoolVal(False))
