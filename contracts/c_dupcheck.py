"""Sidecar contract for the canonicalisation region of esr/generation/duplicate_checker.py::main (C02, C03).

Region: from `extra_orig = utils.get_match_indexes(all_fun, extra_orig)` to `all_fun[-nextra:] = [all_fun[f] for f in extra_orig]` (the writer of all_equations_<n>.txt in
between is verified separately: one line per entry, in list order).  all_fun holds the raw strings of the ntot = norig + nextra trees: originals first, then the rewritten
(extra) trees in the order of the tree files; extra_orig[k] is the raw string of the original tree the k-th extra tree was rewritten from.

initial_sympify is used through its contract: it returns, position by position, the canonical string CAN(s) of every string it is given (elementwise, length preserved;
CAN is a function of the string and max_param: A-sympy).  Ensures
  (a) the list keeps its length, and position p < norig holds CAN(raw[p]): line p of all_equations (written in between) and entry p afterwards belong to tree p;
  (b) at the time all_equations is written, position norig + k holds CAN(raw[norig + k]): the extra tree's OWN string (what C02 compares with the tree on that line);
  (c) at the end, position norig + k holds CAN(raw[m_k]) for an index m_k with raw[m_k] = the raw string of the extra tree's original (get_match_indexes' contract):
      the rewritten tree enters simplification under the canonical string of the tree it is known to equal (C03: its match is that tree's match)."""
import ast
import z3
from pyvc.engine import Contract
from pyvc.values import T, VInt, VLabel, VRef, VTuple, VNone, VFn, VConc, HSeq, HObj, Label, Fn, Unsupported, fresh_name

I = z3.IntSort()
RAW = z3.Function("raw.string", I, Label)              # raw string of tree p (originals, then extras)
XO = z3.Function("extra.orig.string", I, Label)        # raw string of the original of extra tree k
CAN = z3.Function("canonical", Label, I, Label)        # initial_sympify's elementwise map (string, max_param)
MK = z3.Function("match.index", I, I)                   # what get_match_indexes returns for extra k


def _region(fnode):
    a = b = None
    for k, s in enumerate(fnode.body):
        if a is None and isinstance(s, ast.Assign) and isinstance(s.value, ast.Call) and ast.unparse(s.value.func).endswith("get_match_indexes"):
            a = k
        if a is not None and isinstance(s, ast.If) and any(isinstance(n, ast.Assign) and isinstance(n.targets[0], ast.Subscript) and ast.unparse(n.targets[0].value) == "all_fun"
                                                           and isinstance(n.value, ast.ListComp) for n in s.body):
            b = k
    if a is None or b is None:
        return None
    # the writer of all_equations (an `if rank == 0:` with a `with open`) and memory reports in between are left out: they do not assign all_fun
    keep = []
    for s in fnode.body[a:b + 1]:
        if isinstance(s, ast.If) and any(isinstance(n, ast.With) for n in ast.walk(s)):
            assigns = [n for n in ast.walk(s) if isinstance(n, ast.Name) and isinstance(n.ctx, ast.Store) and n.id in ("all_fun", "extra_orig", "nextra")]
            if assigns:
                return None
            keep.append(ast.Expr(value=ast.Call(func=ast.Name(id="__snapshot_all_fun", ctx=ast.Load()), args=[ast.Name(id="all_fun", ctx=ast.Load())], keywords=[]), lineno=s.lineno, col_offset=0))
            continue
        if isinstance(s, ast.If) and ast.unparse(s.test).startswith("rank == 0 and track_memory"):
            continue
        keep.append(s)
    for s in keep:
        ast.fix_missing_locations(s)
    return keep


def extras_region_contract(with_extras=True):
    NT, NX, MP = z3.Int("ntot"), z3.Int("nextra"), z3.Int("max_param")

    def mk_all_fun(eng, st):
        return st.alloc(HSeq(NT, lambda p: VLabel(RAW(p)), etype=T.label))

    def mk_extra(eng, st):
        return st.alloc(HSeq(NX, lambda k: VLabel(XO(k)), etype=T.label))

    def m_match(eng, st, args, kwargs, node):
        a, b = args
        oa, ob = st.heap[a.addr], st.heap[b.addr]
        k = z3.Int("k!gm")
        # precondition of get_match_indexes (verified in C03): every element of b occurs in a -- here: every extra tree's original is one of the raw strings (generate_equations
        # appends the extras after the originals they were rewritten from); its postcondition: a[result[k]] = b[k]
        eng.axioms.append(z3.ForAll([k], z3.Implies(z3.And(0 <= k, k < NX), z3.And(0 <= MK(k), MK(k) < NT, RAW(MK(k)) == XO(k))), patterns=[MK(k)]))
        eng.oblige(st, "get_match_indexes is called for (all raw strings, the originals of the extra trees)", z3.And(oa.len == NT, ob.len == NX), "call", node)
        return st.alloc(HSeq(NX, lambda q: VInt(MK(q)), numpy=True, etype=T.int))

    def m_initial_sympify(eng, st, args, kwargs, node):
        lst = st.heap[args[0].addr]
        mp = eng.as_int(args[1])
        g = lst.get
        res = st.alloc(HSeq(lst.len, lambda p: VLabel(CAN(g(p).t, mp)), etype=T.label))
        return VTuple([res, VFn(z3.Const(fresh_name("all_sym"), Fn))])

    def m_snapshot(eng, st, args, kwargs, node):
        st.ghost = dict(st.ghost)
        o = st.heap[args[0].addr]
        st.ghost["written"] = (o.len, o.get)
        return VNone()

    def setup(eng, st, args):
        eng.models["utils.get_match_indexes"] = m_match
        eng.models["simplifier.initial_sympify"] = m_initial_sympify
        eng.models["__snapshot_all_fun"] = m_snapshot
        st.assume(z3.And(NT >= 1, NX >= 0, NX < NT, MP >= 0))
        st.assume(NX > 0 if with_extras else NX == 0)

    def ensures(S, a, res):
        v = S.var("all_fun")
        if not isinstance(v, VRef):
            return [("all_fun is a list at the end of the region", z3.BoolVal(False))]
        o = S.seq(v)
        p, k = z3.Int(fresh_name("p!sk")), z3.Int(fresh_name("k!sk"))
        out = [("the list keeps one entry per tree", o.len == NT),
               ("(a) position p of an original tree holds the canonical string of that tree's raw string", z3.Implies(z3.And(0 <= p, p < NT - NX), o.get(p).t == CAN(RAW(p), MP)))]
        w = S.st.ghost.get("written")
        if w is None:
            out.append(("all_equations is written inside the region", z3.BoolVal(False)))
        else:
            wl, wg = w
            out.append(("(b) when all_equations is written every position, extra trees included, holds the canonical string of its OWN raw string",
                        z3.And(wl == NT, z3.Implies(z3.And(0 <= p, p < NT), wg(p).t == CAN(RAW(p), MP)))))
        out.append(("(c) afterwards extra tree k carries the canonical string of a tree whose raw string is that of its original",
                    z3.Implies(z3.And(0 <= k, k < NX), z3.And(0 <= MK(k), MK(k) < NT, RAW(MK(k)) == XO(k), o.get(NT - NX + k).t == CAN(RAW(MK(k)), MP)))))
        return out

    c = Contract("main", {"all_fun": mk_all_fun, "extra_orig": mk_extra, "nextra": lambda e, s: VInt(NX), "max_param": lambda e, s: VInt(MP),
                          "track_memory": T.bool, "rank": T.int, "dirname": T.label, "compl": T.int},
                 ensures=ensures, setup=setup, region=_region, raises=lambda S, a, e: z3.BoolVal(False))
    c.region_name = "canonicalisation of originals and extras (%s)" % ("with extra trees" if with_extras else "no extra tree")
    c.live_ins = ("all_fun", "extra_orig", "nextra")
    return c


# ------------------------------------------------------------------ initial_sympify: the local loop is elementwise (C02, C03) -- the callee contract the region above uses
PARSE = z3.Function("sympify.parse", Label, Fn)               # sympify(s, locals=locs) when it returns
PARSEOK = z3.Function("sympify.returns", Label, z3.BoolSort())
PRINT = z3.Function("ESRPrinter.doprint", Fn, Label)
ZOO = z3.Const("sympy.zoo", Fn)


def canl(t):
    """the canonical string of a raw string: print(parse(s)), or print(zoo) when the parse raises"""
    return z3.If(PARSEOK(t), PRINT(PARSE(t)), PRINT(ZOO))


def _isym_loop_region(fnode):
    for k, s in enumerate(fnode.body):
        if isinstance(s, ast.For) and any(isinstance(n, ast.Call) and ast.unparse(n.func).endswith("sympify") for n in ast.walk(s)) and \
                any(isinstance(n, ast.Call) and ast.unparse(n.func).endswith("doprint") for n in ast.walk(s)):
            pre = [fnode.body[k - 1]] if k > 0 and isinstance(fnode.body[k - 1], ast.Assign) and "ESRPrinter" in ast.unparse(fnode.body[k - 1].value) else []
            return pre + [s]
    return None


def initial_sympify_loop_contract(save_sympy=True):
    """Every string of the rank's list is replaced, position by position, by the printed form of its own parse (of zoo when the parse raises): the list keeps its length and
    entry k afterwards is a function of entry k before -- nothing is moved, dropped or taken from a neighbour.  With save_sympy every string of the result is a key of the
    dictionary, and the value stored under a key is an expression whose printed form is that key."""
    from pyvc.engine import LoopSpec
    from pyvc.values import HDict, VBool
    N = z3.Int("nlocal")
    S0 = z3.Function("raw.local", I, Label)

    def mk_list(eng, st):
        return st.alloc(HSeq(N, lambda k: VLabel(S0(k)), etype=T.label))

    def mk_dict(eng, st):
        if not save_sympy:
            return VNone()
        return st.alloc(HDict(lambda q: z3.BoolVal(False), lambda q: VFn(z3.Const("nothing", Fn)), None, T.label, T.fn))

    def lab(v):
        if isinstance(v, VLabel):
            return v.t
        raise Unsupported("a string is expected: %r" % (v,))

    def setup(eng, st, args):
        eng.may_raise_calls = {"sympify"}
        eng.may_raise_conds = {"sympify": lambda e, s, c: z3.Not(PARSEOK(lab(e.ev(c.args[0], s))))}
        eng.models["sympy.sympify"] = lambda e, s, a, kw, node: VFn(PARSE(lab(a[0])))
        eng.methods["sympify"] = lambda e, s, recv, a, kw, node: VFn(PARSE(lab(a[0])))
        eng.models["ESRPrinter"] = lambda e, s, a, kw, node: VFn(z3.Const("printer", Fn))
        def m_doprint(e, s, recv, a, kw, node):
            v = a[0]
            if isinstance(v, VFn):
                return VLabel(PRINT(v.t))
            if hasattr(v, "val") and isinstance(v.val, VFn):
                return VLabel(PRINT(v.val.t))
            if isinstance(v, VConc) and v.name == "method:zoo":
                return VLabel(PRINT(ZOO))            # the attribute sympy.zoo (complex infinity): what a string that does not parse is replaced by
            raise Unsupported("doprint of %r (%s)" % (v, getattr(v, "name", "")))
        eng.methods["doprint"] = m_doprint
        eng.globals_extra = {}
        st.assume(N >= 0)

    def state(S, i):
        o = S.seq(S.var("str_fun"))
        k = z3.Int("k!is")
        out = [("the list keeps its length", o.len == N),
               ("entries already visited hold the canonical string of what was there, the others are untouched",
                z3.ForAll([k], z3.Implies(z3.And(0 <= k, k < N), o.get(k).t == z3.If(k < i, canl(S0(k)), S0(k)))))]
        if save_sympy:
            d = S.st.heap[S.var("sym_fun").addr]
            q = z3.Const("q!is", Label)
            out.append(("every visited entry's string is a key of the dictionary", z3.ForAll([k], z3.Implies(z3.And(0 <= k, k < i), d.has(canl(S0(k)))))))
            out.append(("the expression stored under a key prints as that key", z3.ForAll([q], z3.Implies(d.has(q), PRINT(d.val(q).t) == q))))
        return out

    def inv(S, st):
        return state(S, S.i(S.var("__i")))

    def ensures(S, a, res):
        return state(S, N)

    c = Contract("initial_sympify", {"str_fun": mk_list, "sym_fun": mk_dict, "locs": T.fn, "save_sympy": lambda e, s: VBool(save_sympy)},
                 ensures=ensures, setup=setup, region=_isym_loop_region, loops=None, raises=lambda S, a, e: z3.BoolVal(False),
                 globals_={"sympy": lambda e, s: s.alloc(HObj("module", {"zoo": VFn(ZOO)}))})
    c.loop_select = lambda node: LoopSpec(inv)
    c.region_name = "local loop (%s)" % ("expressions kept" if save_sympy else "strings only")
    c.live_ins = ("str_fun",)
    return c
