"""Sidecar contracts for esr/fitting/likelihood.py (C09).

The model function `eq_numpy` is opaque.  Its values at the data points for the given parameters
are the uninterpreted ExtReal-valued family PRED(k) (with a flag for a non-zero imaginary part);
a call of eq_numpy returns, depending on the *variant* under which the function is verified,
the array k -> PRED(k), the scalar PRED(0) (constant functions), or raises (caught by
Likelihood.get_pred).  Every negloglike is verified under all variants.
"""
import z3
from pyvc.engine import Contract
from pyvc.values import (T, VFloat, VFn, VRef, VTuple, VLabel, Label, HObj, HSeq, Fn, Unsupported, fresh_name,
                         fadd, fsub, fmul, fdiv, flog, fsqrt, fsame, as_float, LN, SQRT)
from pyvc import models as M

PV = z3.Function("PRED.val", z3.IntSort(), z3.RealSort())
PN = z3.Function("PRED.nan", z3.IntSort(), z3.BoolSort())
PI_ = z3.Function("PRED.inf", z3.IntSort(), z3.BoolSort())
PP = z3.Function("PRED.pos", z3.IntSort(), z3.BoolSort())
PC = z3.Function("PRED.cplx", z3.IntSort(), z3.BoolSort())
pi = z3.Real("pi")


def pred(k):
    return VFloat(PV(k), PN(k), PI_(k), PP(k), PC(k))


def fin_real(v):
    return z3.And(v.is_fin(), z3.Not(v.cplx))


def mk_self(cls, fields):
    def mk(eng, st):
        f = {}
        n = z3.Int("ndata")
        st.assume(n >= 1)
        for nm in fields:
            v = eng.fresh(T.arr(T.float), "self." + nm, st)
            st.heap[v.addr].len = n          # all data vectors have the same length (one term: keeps sums syntactically aligned)
            f[nm] = v
            st.ghost = dict(st.ghost)
            st.ghost["data0." + nm] = (st.heap[v.addr].len, st.heap[v.addr].get)       # entry value of the data vector (frame condition)
        st.ghost["n"] = n
        return st.alloc(HObj(cls, f))
    return mk


def opaque_call_for(variant):
    def call(eng, st, fn, args, kwargs, node):
        from pyvc.models import PyRaise
        n = st.ghost["n"]
        if variant == "raises":
            raise PyRaise("Exception")
        if variant == "scalar":
            return pred(z3.IntVal(0))
        if variant == "alias":
            return args[0]            # a model like f(x) = x hands back the very array it was given (sympy.lambdify of `x` does)
        return st.alloc(HSeq(n, pred, numpy=True, etype=T("cfloat")))
    return call


def data(S, selfv, name, k):
    o = S.st.heap[selfv.addr]
    return S.get(o.fields[name], k)


def get_pred_contract(variant):
    """Likelihood.get_pred: the model's values, or +inf if evaluating the model raises."""
    def ensures(S, a, res):
        n = S.st.ghost["n"]
        k = z3.Int("k!gp")
        if variant == "raises":
            return [("evaluation error gives +inf", res.is_pinf() if isinstance(res, VFloat) else z3.BoolVal(False))]
        if variant == "scalar":
            return [("returns the model value", fsame(res, pred(z3.IntVal(0))) if isinstance(res, VFloat) else z3.BoolVal(False))]
        if variant == "alias":
            return [("returns what the model returned (here: its own argument)", z3.BoolVal(isinstance(res, VRef) and res.addr == a["x"].addr))]
        if not isinstance(res, VRef):
            return [("returns the model values", z3.BoolVal(False))]
        return [("returns the model values", z3.And(S.len(res) == n, z3.ForAll([k], z3.Implies(z3.And(0 <= k, k < n), z3.And(
            fsame(S.get(res, k), pred(k)), S.get(res, k).cplx == PC(k))))))]

    def returns(eng, st, a):
        n = st.ghost["n"]
        if variant == "raises":
            return VFloat(0, inf=True, pos=True)
        if variant == "scalar":
            return pred(z3.IntVal(0))
        if variant == "alias":
            return a["x"]
        return st.alloc(HSeq(n, pred, numpy=True, etype=T("cfloat")))
    return Contract("Likelihood.get_pred", {"self": mk_self("Likelihood", []), "x": T.arr(T.float), "a": T.arr(T.float), "eq_numpy": T.fn},
                    ensures=ensures, returns=returns, raises=lambda S, a, e: z3.BoolVal(False))


def sqrt_pred(k):
    return fsqrt(pred(k))


def cc_get_pred_contract(variant, cls):
    def ensures(S, a, res):
        n = S.st.ghost["n"]
        k = z3.Int("k!gp")
        if variant == "scalar":
            return [("returns sqrt of the model value", z3.And(fsame(res, sqrt_pred(z3.IntVal(0))), res.cplx == PC(z3.IntVal(0))))]
        return [("returns sqrt of the model values", z3.And(S.len(res) == n, z3.ForAll([k], z3.Implies(z3.And(0 <= k, k < n), z3.And(
            fsame(S.get(res, k), sqrt_pred(k)), S.get(res, k).cplx == PC(k))))))]

    def returns(eng, st, a):
        n = st.ghost["n"]
        if variant == "scalar":
            return sqrt_pred(z3.IntVal(0))
        return st.alloc(HSeq(n, sqrt_pred, numpy=True, etype=T("cfloat")))

    def raises(S, a, exc):
        return z3.BoolVal(variant == "raises")      # CC/Mock.get_pred do not catch model errors
    return Contract(cls + ".get_pred", {"self": mk_self(cls, []), "zp1": T.arr(T.float), "a": T.arr(T.float), "eq_numpy": T.fn},
                    ensures=ensures, returns=returns, raises=raises)


def finite_data(S, selfv, names, positive=()):
    n = S.st.ghost["n"]
    k = z3.Int("k!fd")
    cs = []
    for nm in names:
        v = data(S, selfv, nm, k)
        c = v.is_fin()
        if nm in positive:
            c = z3.And(c, v.val > 0)
        cs.append(c)
    return z3.ForAll([k], z3.Implies(z3.And(0 <= k, k < n), z3.And(cs)))


def negloglike_contract(cls, variant):
    """cls in Gauss, Poisson, CC, Mock, MSE."""
    fields = {"GaussLikelihood": ["xvar", "yvar", "yerr"], "PoissonLikelihood": ["xvar", "yvar"],
              "CCLikelihood": ["xvar", "yvar", "yerr", "inv_cov"], "MockLikelihood": ["xvar", "yvar", "yerr", "inv_cov"],
              "MSE": ["xvar", "yvar"]}[cls]

    def setup(eng, st, args):
        eng.opaque_call = opaque_call_for(variant)
        if cls in ("CCLikelihood", "MockLikelihood"):
            # the two classes override get_pred themselves: verified separately, used through its contract here
            eng.contracts[cls + ".get_pred"] = cc_get_pred_contract(variant, cls)
        else:
            eng.contracts[cls + ".get_pred"] = get_pred_contract(variant)
        eng._sum_terms = []

    def term(S, selfv, k, kp):
        """The documented summand at data point k (model value taken at kp), over ExtReals."""
        f, y = pred(kp), data(S, selfv, "yvar", k)
        if cls == "GaussLikelihood":
            s = data(S, selfv, "yerr", k)
            d = fsub(y, f)
            return fadd(fadd(fdiv(fmul(d, d), fmul(VFloat(2), fmul(s, s))), fdiv(flog(VFloat(2 * pi)), VFloat(2))), flog(s))
        if cls == "PoissonLikelihood":
            return fsub(f, fmul(y, flog(f)))
        if cls in ("CCLikelihood", "MockLikelihood"):
            s = data(S, selfv, "yerr", k)
            d = fsub(fsqrt(f), y)
            return fdiv(fmul(d, d), fmul(VFloat(2), fmul(s, s)))
        if cls == "MSE":
            d = fsub(y, f)
            return fmul(d, d)

    def ensures(S, a, res):
        n = S.st.ghost["n"]
        selfv = a["self"]
        k = z3.Int("k!nl")
        out = []
        if not isinstance(res, VFloat):
            return [("returns a number", z3.BoolVal(False))]
        # frame: the likelihood's data vectors are what they were (also when the model hands back one of them)
        kf = z3.Int(fresh_name("k!fr"))
        o_ = S.st.heap[selfv.addr]
        for nm in fields:
            l0, g0 = S.st.ghost["data0." + nm]
            cur = S.seq(o_.fields[nm]) if isinstance(o_.fields[nm], VRef) else None
            out.append(("the data vector self.%s is not modified" % nm,
                        z3.And(cur.len == l0, z3.Implies(z3.And(0 <= kf, kf < l0), fsame(as_float(cur.get(kf)), as_float(g0(kf))))) if cur is not None else z3.BoolVal(False)))
        if variant == "alias":
            return out            # (the model returns the abscissa array itself: only the frame is asked for)
        out.append(("the result is never NaN", z3.Not(res.nan)))
        if variant == "raises":
            if cls in ("CCLikelihood", "MockLikelihood"):
                return out
            out.append(("a model that cannot be evaluated gives +inf (finite data)",
                        z3.Implies(finite_data(S, selfv, ["yvar"] + (["yerr"] if "yerr" in fields else []), positive=("yerr",)), res.is_pinf())))
            return out
        idx = (lambda q: z3.IntVal(0)) if variant == "scalar" else (lambda q: q)
        # bad predictions give +inf
        w = z3.Int("w!bad")
        bad = z3.Or(PC(idx(w)), PN(idx(w)))
        if cls == "PoissonLikelihood":
            bad = z3.Or(bad, z3.And(z3.Not(PI_(idx(w))), PV(idx(w)) <= 0), z3.And(PI_(idx(w)), z3.Not(PP(idx(w)))))
        out.append(("a complex, NaN%s prediction at some data point gives +inf" % (" or non-positive" if cls == "PoissonLikelihood" else ""),
                    z3.Implies(z3.And(0 <= w, w < n, bad), res.is_pinf())))
        # the documented formula on well-behaved inputs
        def goodat(q):
            return z3.And(fin_real(pred(q)), (PV(q) > 0) if cls in ("PoissonLikelihood",) else (
                PV(q) >= 0 if cls in ("CCLikelihood", "MockLikelihood") else z3.BoolVal(True)))
        if variant == "scalar":
            good = goodat(z3.IntVal(0))
        else:
            good = z3.ForAll([k], z3.Implies(z3.And(0 <= k, k < n), goodat(k)))
        dnames = ["yvar"] + (["yerr"] if "yerr" in fields else [])
        pre = z3.And(good, finite_data(S, selfv, dnames, positive=("yerr",)))
        if cls in ("CCLikelihood", "MockLikelihood"):
            # class invariant established by __init__: inv_cov = 1 / yerr**2
            pre = z3.And(pre, z3.ForAll([k], z3.Implies(z3.And(0 <= k, k < n), z3.And(
                data(S, selfv, "inv_cov", k).is_fin(),
                data(S, selfv, "inv_cov", k).val * data(S, selfv, "yerr", k).val * data(S, selfv, "yerr", k).val == 1))))
        kk = z3.Int("k!spec")
        spec_arr = M.named_array(S.eng, z3.Lambda([kk], term(S, selfv, kk, idx(kk)).val), "SPEC")
        spec_sum = M.SUMR(spec_arr, n)
        # extensionality of SUMR between the code's summand array(s) and the specification's
        for (arr, nn) in getattr(S.eng, "_sum_terms", []):
            q = z3.Int(fresh_name("q!ext"))
            S.eng.axioms.append(z3.Implies(z3.ForAll([q], z3.Implies(z3.And(0 <= q, q < n), z3.Select(arr, q) == z3.Select(spec_arr, q))),
                                           M.SUMR(arr, n) == spec_sum))
        want = spec_sum / z3.ToReal(n) if cls == "MSE" else spec_sum
        out.append(("finite real predictions and data: the result is the documented formula",
                    z3.Implies(pre, z3.And(res.is_fin(), res.val == want))))
        return out

    params = {"self": mk_self(cls, fields), "a": T.arr(T.float), "eq_numpy": T.fn}
    return Contract(cls + ".negloglike", params, ensures=ensures, setup=setup,
                    raises=lambda S, a, e: z3.BoolVal(cls in ("CCLikelihood", "MockLikelihood") and variant == "raises"))


def base_get_pred_verify_contract(variant):
    """Likelihood.get_pred itself (the try/except around the model call)."""
    c = get_pred_contract(variant)
    c.setup = lambda eng, st, args: (setattr(eng, "opaque_call", opaque_call_for(variant)), st.ghost.__setitem__("n", z3.Int("ndata")), st.assume(z3.Int("ndata") >= 1))
    c.params = {"self": mk_self("Likelihood", []), "x": T.arr(T.float), "a": T.arr(T.float), "eq_numpy": T.fn}
    return c


def cc_get_pred_verify_contract(variant, cls):
    c = cc_get_pred_contract(variant, cls)
    c.setup = lambda eng, st, args: setattr(eng, "opaque_call", opaque_call_for(variant))
    return c


# ------------------------------------------------------------------ CCLikelihood / MockLikelihood: what the constructor leaves in the data vectors (C09)
def _init_region(fnode):
    """from `self.Hfid = ...` to the assignment of self.inv_cov (the call of the base constructor before it builds paths only and is not part of the region)"""
    import ast
    a = b = None
    for k, s in enumerate(fnode.body):
        if a is None and isinstance(s, ast.Assign) and ast.unparse(s.targets[0]) == "self.Hfid":
            a = k
        if isinstance(s, ast.Assign) and ast.unparse(s.targets[0]) == "self.inv_cov":
            b = k
    return fnode.body[a:b + 1] if a is not None and b is not None and b > a else None


def init_contract(cls):
    """The class invariant the negloglike contracts of CCLikelihood / MockLikelihood assume is established here: with (X, Y, E) the three columns of the data file,
    xvar = X + 1, yvar = Y / Hfid, yerr = E / Hfid, Hfid = 1, and inv_cov[k] * yerr[k]**2 = 1 for every row with a finite non-zero error (inv_cov = 1 / yerr**2
    elementwise, nothing reordered, all four vectors of the file's length)."""
    N = z3.Int("nrows")
    COL = [z3.Function("file.col%d" % c, z3.IntSort(), z3.RealSort()) for c in range(3)]

    def m_genfromtxt(eng, st, args, kwargs, node):
        if "unpack" not in kwargs:
            raise Unsupported("np.genfromtxt without unpack=True")
        cols = [st.alloc(HSeq(N, (lambda k, c=c: VFloat(COL[c](k))), numpy=True, etype=T.real)) for c in range(3)]
        return VTuple(cols)

    def mk_self(eng, st):
        return st.alloc(HObj(cls, {"data_file": VLabel(z3.Const("self.data_file", Label))}))

    def setup(eng, st, args):
        eng.models["np.genfromtxt"] = m_genfromtxt
        st.assume(N >= 1)

    def ensures(S, a, res):
        o = S.st.heap[a["self"].addr]
        need = ("xvar", "yvar", "yerr", "inv_cov", "Hfid")
        if any(f not in o.fields for f in need):
            return [("the constructor sets xvar, yvar, yerr, inv_cov and Hfid", z3.BoolVal(False))]
        k = z3.Int(fresh_name("k!sk"))
        inr = z3.And(0 <= k, k < N)
        g = lambda nm: as_float(S.get(o.fields[nm], k))
        L = lambda nm: S.len(o.fields[nm])
        hf = as_float(o.fields["Hfid"])
        return [("the four data vectors have one entry per row of the file", z3.And(L("xvar") == N, L("yvar") == N, L("yerr") == N, L("inv_cov") == N)),
                ("Hfid = 1", z3.And(hf.is_fin(), hf.val == 1)),
                ("row k: xvar = first column + 1, yvar = second column, yerr = third column (Hfid = 1), in file order",
                 z3.Implies(inr, z3.And(g("xvar").is_fin(), g("xvar").val == COL[0](k) + 1, g("yvar").is_fin(), g("yvar").val == COL[1](k), g("yerr").is_fin(), g("yerr").val == COL[2](k)))),
                ("row k: inv_cov * yerr**2 = 1 whenever the error is not zero (the invariant the likelihood contracts assume)",
                 z3.Implies(z3.And(inr, COL[2](k) != 0), z3.And(g("inv_cov").is_fin(), g("inv_cov").val * COL[2](k) * COL[2](k) == 1)))]

    c = Contract(cls + ".__init__", {"self": mk_self}, ensures=ensures, setup=setup, region=_init_region, raises=lambda S, a, e: z3.BoolVal(False))
    c.region_name = "data vectors"
    return c
