"""Sidecar contract for esr/fitting/fit_single.py::single_function (C20): data flow of the single-tree API.

Every callee is opaque (fresh results; the arguments of each call are recorded as ghost state).  Proved: the description length
returned is negloglike + codelen + aifeyn of ONE convert_params / aifeyn_complexity call, whose arguments are wired as in the
library pipeline: the string is the canonical string of the tree of `labels`, optimise_fun and convert_params get the same
max_param, convert_params gets optimise_fun's parameters and likelihood value, aifeyn_complexity gets `labels` and the parameter
list a0..a(max_param-1), and the likelihood term returned is the one convert_params returned (after snapping)."""
import z3
from pyvc.engine import Contract
from pyvc.values import (T, VInt, VFloat, VBool, VLabel, VFn, VRef, VTuple, VStr, VNone, HObj, HSeq, HDict, Label, Fn, Unsupported,
                         fresh_name, fadd, fsame)


def single_function_contract(return_params):
    def mk_lik(eng, st):
        return st.alloc(HObj("Lik", {"is_mse": VBool(z3.Bool("is_mse"))}))

    def setup(eng, st, args):
        calls = {}
        st.ghost["calls"] = calls

        def rec(name, ret):
            def m(eng_, st_, a, kw, node):
                if name in st_.ghost["calls"]:
                    st_.ghost["calls"][name + "#2"] = (a, kw)
                st_.ghost["calls"] = dict(st_.ghost["calls"])
                st_.ghost["calls"][name] = (a, kw)
                r = ret(eng_, st_, a, kw)
                st_.ghost["calls"][name + ".ret"] = r
                return r
            return m
        fl = lambda n: VLabel(z3.Const(fresh_name(n), Label))
        eng.models["generator.labels_to_shape"] = rec("labels_to_shape", lambda e, s, a, k: e.fresh(T.list(T.int), "shape", s))
        eng.models["generator.check_tree"] = rec("check_tree", lambda e, s, a, k: VTuple([VBool(z3.Bool(fresh_name("succ"))), VNone(), e.fresh(T.list(T.fn), "tree", s)]))
        eng.models["generator.node_to_string"] = rec("node_to_string", lambda e, s, a, k: fl("fstr0"))
        eng.models["simplifier.get_max_param"] = rec("get_max_param", lambda e, s, a, k: VInt(z3.Int("mp")))

        def init_symp(e, s, a, k):
            lst = e.mk_list([fl("fstr1")], s)
            d = s.alloc(HDict(lambda q: z3.BoolVal(True), lambda q: VFn(z3.Const(fresh_name("fsym"), Fn)), None))
            return VTuple([lst, d])
        eng.models["simplifier.initial_sympify"] = rec("initial_sympify", init_symp)
        eng.models["optimise_fun"] = rec("optimise_fun", lambda e, s, a, k: VTuple([e.fresh(T.float, "chi2", s), e.fresh(T.arr(T.float), "params_opt", s)]))
        eng.models["convert_params"] = rec("convert_params", lambda e, s, a, k: VTuple([
            e.fresh(T.arr(T.float), "params_cp", s), e.fresh(T.float, "nll_cp", s), e.fresh(T.arr(T.float), "deriv", s), e.fresh(T.float, "codelen", s)]))
        eng.models["generator.aifeyn_complexity"] = rec("aifeyn_complexity", lambda e, s, a, k: e.fresh(T.float, "aifeyn", s))

        def run_symp(eng_, st_, recv, a, kw, node):
            st_.ghost["calls"] = dict(st_.ghost["calls"])
            st_.ghost["calls"]["run_sympify"] = (a, kw)
            r = VTuple([fl("fcn"), VFn(z3.Const(fresh_name("eq"), Fn)), VBool(z3.Bool(fresh_name("integrated")))])
            st_.ghost["calls"]["run_sympify.ret"] = r
            return r
        eng.methods["run_sympify"] = run_symp

    params = {"labels": T.list(T.label), "basis_functions": T.list(T.label), "likelihood": mk_lik,
              "pmin": (T.int, VInt(0)), "pmax": (T.int, VInt(5)), "tmax": (T.int, VInt(5)), "try_integration": (T.bool, VBool(False)),
              "verbose": (T.bool, VBool(False)), "Niter": (T.int, VInt(30)), "Nconv": (T.int, VInt(5)), "log_opt": (T.bool, VBool(False)),
              "return_params": lambda e, s: VBool(return_params)}

    def ensures(S, a, res):
        eng, st = S.eng, S.st
        C = st.ghost["calls"]
        need = ["labels_to_shape", "check_tree", "node_to_string", "get_max_param", "initial_sympify", "optimise_fun"]
        for n in need:
            if n not in C:
                raise Unsupported("single_function no longer calls %s" % n)
        mse = st.heap[a["likelihood"].addr].fields["is_mse"].t
        if not isinstance(res, VTuple) or len(res.items) != (3 if return_params else 2):
            return [("returns (negloglike, DL%s)" % (", params" if return_params else ""), z3.BoolVal(False))]
        nll, DL = res.items[0], res.items[1]
        out = []
        same = lambda x, y: z3.BoolVal(isinstance(x, VRef) and isinstance(y, VRef) and x.addr == y.addr)
        lab = lambda x, y: (x.t == y.t) if isinstance(x, VLabel) and isinstance(y, VLabel) else z3.BoolVal(False)
        out.append(("exactly one call each (no second fit or second code length)", z3.BoolVal(not any(k.endswith("#2") for k in C))))
        # the string handed on is the canonical string of the tree built from `labels`
        out.append(("shape and string come from `labels`", z3.And(same(C["labels_to_shape"][0][0], a["labels"]),
                                                                 same(C["check_tree"][0][0], C["labels_to_shape.ret"]),
                                                                 same(C["node_to_string"][0][2], a["labels"]),
                                                                 same(C["node_to_string"][0][1], C["check_tree.ret"].items[2]),
                                                                 isinstance(C["node_to_string"][0][0], VInt) and C["node_to_string"][0][0].t == 0 or z3.BoolVal(False))))
        fstr0 = C["node_to_string.ret"]
        gm = S.seq(C["get_max_param"][0][0])
        isy = S.seq(C["initial_sympify"][0][0])
        mp = C["get_max_param.ret"].t
        out.append(("max_param is that of the tree's string; the string is canonicalised with it",
                    z3.And(gm.len == 1, lab(gm.get(z3.IntVal(0)), fstr0), isy.len == 1, lab(isy.get(z3.IntVal(0)), fstr0),
                           C["initial_sympify"][0][1].t == mp)))
        fstr1 = S.get(C["initial_sympify.ret"].items[0], 0)
        okw = C["optimise_fun"][1]
        out.append(("the optimiser fits the canonical string with that max_param on the caller's likelihood",
                    z3.And(lab(C["optimise_fun"][0][0], fstr1), same(C["optimise_fun"][0][1], a["likelihood"]),
                           okw["max_param"].t == mp if "max_param" in okw else z3.BoolVal(False))))
        # the caller's search settings reach the optimiser: (fstr, likelihood, tmax, pmin, pmax, try_integration=, Niter_params=[Niter], Nconv_params=[Nconv], log_opt=)
        oa = C["optimise_fun"][0]

        def eqv(x, y):
            if isinstance(x, (VInt, VBool)) and isinstance(y, (VInt, VBool)):
                return eng.as_int(x) == eng.as_int(y) if isinstance(x, VInt) else x.t == y.t
            return z3.BoolVal(False)

        def one(v, y):
            if not isinstance(v, VRef):
                return z3.BoolVal(False)
            o = S.seq(v)
            return z3.And(o.len == 1, eqv(o.get(z3.IntVal(0)), y))
        fw = [len(oa) >= 5 and eqv(oa[2], a["tmax"]) or z3.BoolVal(False), len(oa) >= 5 and eqv(oa[3], a["pmin"]) or z3.BoolVal(False),
              len(oa) >= 5 and eqv(oa[4], a["pmax"]) or z3.BoolVal(False),
              eqv(okw["try_integration"], a["try_integration"]) if "try_integration" in okw else z3.BoolVal(False),
              eqv(okw["log_opt"], a["log_opt"]) if "log_opt" in okw else z3.BoolVal(False),
              one(okw.get("Niter_params"), a["Niter"]), one(okw.get("Nconv_params"), a["Nconv"])]
        out.append(("the caller's tmax, pmin, pmax, try_integration, log_opt, Niter and Nconv reach the optimiser unchanged", z3.And(*fw)))
        chi2, popt = C["optimise_fun.ret"].items
        if "convert_params" in C:
            cpa, cpk = C["convert_params"]
            pcp, ncp, dcp, ccp = C["convert_params.ret"].items
            rs = C.get("run_sympify.ret")
            wired = z3.And(rs is not None and lab(cpa[0], rs.items[0]) or z3.BoolVal(False),
                           same(cpa[3], popt), same(cpa[4], a["likelihood"]), fsame(cpa[5], chi2),
                           cpk["max_param"].t == mp if "max_param" in cpk else z3.BoolVal(False),
                           lab(C["run_sympify"][0][0], fstr1) if "run_sympify" in C else z3.BoolVal(False))
            out.append(("(not MSE) convert_params gets the optimiser's parameters and likelihood value, the same string and max_param",
                        z3.Implies(z3.Not(mse), wired)))
            if "aifeyn_complexity" in C:
                aa = C["aifeyn_complexity"][0]
                pl = S.seq(aa[1])
                j = z3.Int("j!pl")
                fmt = eng.label_fn("fmt:a%i", z3.IntSort())
                out.append(("(not MSE) tree code length of `labels` with parameter list a0..a(max_param-1)",
                            z3.Implies(z3.Not(mse), z3.And(same(aa[0], a["labels"]), pl.len == z3.If(mp > 0, mp, 0),
                                                           z3.ForAll([j], z3.Implies(z3.And(0 <= j, j < pl.len), pl.get(j).t == fmt(j)))))))
                aif = C["aifeyn_complexity.ret"]
                out.append(("(not MSE) DL = returned likelihood term + parameter code length + tree code length",
                            z3.Implies(z3.Not(mse), z3.And(fsame(DL, fadd(fadd(ncp, ccp), aif)), fsame(nll, ncp)))))
                if return_params:
                    out.append(("(not MSE) the parameters returned are the snapped ones", z3.Implies(z3.Not(mse), same(res.items[2], pcp))))
            else:
                out.append(("(not MSE) aifeyn_complexity is called", mse))
        else:
            out.append(("(not MSE) convert_params is called", mse))
        out.append(("(MSE) no description length: DL is NaN and the fitted value is returned", z3.Implies(mse, z3.And(DL.nan if isinstance(DL, VFloat) else z3.BoolVal(False), fsame(nll, chi2)))))
        return out

    return Contract("single_function", params, ensures=ensures, setup=setup, raises=lambda S, a, e: z3.BoolVal(False))


# ------------------------------------------------------------ label post-processing of fit_from_string / string_to_aifeyn (C18)
import ast as _ast


def _relabel_region(fnode):
    """from `new_labels = [None] * len(labels)` to the end of the `if replace_floats:` statement"""
    start = end = None
    for k, s in enumerate(fnode.body):
        if start is None and isinstance(s, _ast.Assign) and getattr(s.targets[0], "id", None) == "new_labels":
            start = k
        if start is not None and isinstance(s, _ast.If) and getattr(s.test, "id", None) == "replace_floats":
            end = k
            break
    if start is None or end is None:
        return None
    return fnode.body[start:end + 1]


def relabel_contract(func):
    """The label list after the post-processing (labels0 = what DecoratedNode.to_list returned, m = MAP(labels0)):
         MAP: 'Mul' -> '*', 'Add' -> '+', 'Div' -> '/', 'Sub' -> '-', everything else lower-cased;
         without replace_floats:  labels[j] = m[j]  for every j  (numbers keep their text);
         with replace_floats:     labels[j] = 'a<k>' exactly for the positions that are a number whose parent operator is not pow, or that
                                  already look like a parameter, k counting those positions in order; every other label -- in particular a
                                  number directly under pow -- is m[j]."""
    from pyvc.engine import LoopSpec
    from pyvc.models import CNT, IDX, RNK, mask_array, filter_axioms, STRLOWER, ISFLOAT, STRTAIL
    NL = z3.Int("nlabels")

    def mk_labels(eng, st):
        v = eng.fresh(T.list(T.label), "labels", st)
        st.heap[v.addr].len = NL
        st.ghost["labels0"] = st.heap[v.addr].get
        return v

    def L(eng, s):
        return eng.label_of(s)

    def MAP(eng, t):
        return z3.If(t == L(eng, "Mul"), L(eng, "*"), z3.If(t == L(eng, "Add"), L(eng, "+"), z3.If(t == L(eng, "Div"), L(eng, "/"), z3.If(t == L(eng, "Sub"), L(eng, "-"), STRLOWER(t)))))

    def starts_a(eng, t):
        return z3.Function("str.startswith:a", Label, z3.BoolSort())(t)

    def paramlike(eng, t):
        return z3.And(starts_a(eng, t), ISFLOAT(STRTAIL(t, z3.IntVal(1))))

    def setup(eng, st, args):
        P = z3.Function("tree.parent", z3.IntSort(), z3.IntSort())
        st.ghost["PAR"] = P

        def labels_to_shape(e, s, a, k, node):
            o = s.heap[a[0].addr]
            return s.alloc(HSeq(o.len, lambda q: VInt(z3.Function("shape.at", z3.IntSort(), z3.IntSort())(q)), etype=T.int))

        def check_tree(e, s, a, k, node):
            from pyvc.values import HRec, VMaybeNone
            o = s.heap[a[0].addr]
            # the label list is a well-formed prefix expression (string_to_node; bounded part): every node but the root has a parent before it
            tree = s.alloc(HRec(o.len, {"parent": (lambda q: VMaybeNone(q == 0, VInt(P(q))))}, "Node", {"parent": T.opt(T.int)}))
            return VTuple([VBool(True), VNone(), tree])
        eng.models["generator.labels_to_shape"] = labels_to_shape
        eng.models["generator.check_tree"] = check_tree
        q = z3.Int("q!par")
        eng.axioms.append(z3.ForAll([q], z3.Implies(q >= 1, z3.And(0 <= P(q), P(q) < q)), patterns=[P(q)]))
        for lit in ("Mul", "Add", "Div", "Sub", "*", "+", "/", "-", "pow", "a"):
            eng.label_of(lit)

    def m_of(S, q):
        return MAP(S.eng, S.st.ghost["labels0"](q).t)

    def pmask1(S):
        ma = mask_array(S.eng, S.st, lambda q: z3.Or(ISFLOAT(m_of(S, q)), paramlike(S.eng, m_of(S, q))))
        filter_axioms(S.eng, ma, NL)
        return ma

    def pmask2(S):
        P = S.st.ghost["PAR"]
        powl = L(S.eng, "pow")

        def under_pow(q):
            return z3.And(q >= 1, STRLOWER(m_of(S, P(q))) == powl)
        ma = mask_array(S.eng, S.st, lambda q: z3.Or(z3.And(ISFLOAT(m_of(S, q)), z3.Not(under_pow(q))), paramlike(S.eng, m_of(S, q))))
        filter_axioms(S.eng, ma, NL)
        return ma, under_pow

    def fmt(S, k):
        return S.eng.label_fn("fmt:a%i", z3.IntSort())(k)

    def inv1(S, st):
        j = S.i(S.var("__i"))
        lab, new = S.seq(S.var("labels")), S.seq(S.var("new_labels"))
        l0 = st.ghost["labels0"]
        q = z3.Int("q!i1")
        return [("the first j labels are mapped in both lists, the rest of `labels` is untouched",
                 z3.And(lab.len == NL, new.len == NL,
                        z3.ForAll([q], z3.Implies(z3.And(0 <= q, q < NL), z3.If(q < j, z3.And(lab.get(q).t == m_of(S, q), _lab(new.get(q)) == m_of(S, q)), lab.get(q).t == l0(q).t)))))]

    def _lab(v):
        from pyvc.values import VMaybeNone
        if isinstance(v, VMaybeNone):
            return v.val.t
        if isinstance(v, VNone):
            return z3.Const("none!label", Label)
        return v.t

    def link(S, ma):
        """the code's own mask (the filter of the comprehension that built param_idx) agrees with the specification's"""
        from pyvc.models import filter_ext
        pi = S.seq(S.var("param_idx"))
        if pi.note and pi.note[0] == "filter":
            filter_ext(S.eng, pi.note[1], ma, pi.note[2])
            if not pi.note[2].eq(NL):
                S.eng.axioms.append(z3.Implies(pi.note[2] == NL, z3.And(CNT(pi.note[1], pi.note[2]) == CNT(pi.note[1], NL))))

    def inv2(S, st):
        k = S.i(S.var("__i"))
        ma = pmask1(S)
        link(S, ma)
        new, lab = S.seq(S.var("new_labels")), S.seq(S.var("labels"))
        pi = S.seq(S.var("param_idx"))
        q, r = z3.Int("q!i2"), z3.Int("r!i2")
        return [("new_labels: the first k parameter positions are renamed, the rest is the mapped text; labels is the mapped text",
                 z3.And(new.len == NL, lab.len == NL, pi.len == CNT(ma, NL),
                        z3.ForAll([r], z3.Implies(z3.And(0 <= r, r < pi.len), pi.get(r).t == IDX(ma, NL, r))),
                        z3.ForAll([q], z3.Implies(z3.And(0 <= q, q < NL), z3.And(lab.get(q).t == m_of(S, q),
                                                                               _lab(new.get(q)) == z3.If(z3.And(z3.Select(ma, q), RNK(ma, NL, q) < k), fmt(S, RNK(ma, NL, q)), m_of(S, q)))))))]

    def inv3(S, st):
        k = S.i(S.var("__i"))
        ma, _ = pmask2(S)
        link(S, ma)
        lab = S.seq(S.var("labels"))
        pi = S.seq(S.var("param_idx"))
        q, r = z3.Int("q!i3"), z3.Int("r!i3")
        return [("labels: the first k replaceable positions are renamed, the rest is the mapped text",
                 z3.And(lab.len == NL, pi.len == CNT(ma, NL),
                        z3.ForAll([r], z3.Implies(z3.And(0 <= r, r < pi.len), pi.get(r).t == IDX(ma, NL, r))),
                        z3.ForAll([q], z3.Implies(z3.And(0 <= q, q < NL), lab.get(q).t == z3.If(z3.And(z3.Select(ma, q), RNK(ma, NL, q) < k), fmt(S, RNK(ma, NL, q)), m_of(S, q))))))]

    def loop_select(node):
        src = _ast.dump(node.iter)
        if "labels" in src and "param_idx" not in src:
            return LoopSpec(inv1, havoc_types={"lab": T.label, "j": T.int, "new_labels": T.list(T.label)})
        stores = {getattr(getattr(n, "value", None), "id", None) for b in node.body for n in _ast.walk(b) if isinstance(n, _ast.Subscript) and isinstance(n.ctx, _ast.Store)}
        if "new_labels" in stores:
            return LoopSpec(inv2, havoc_types={"k": T.int, "j": T.int})
        if "labels" in stores:
            return LoopSpec(inv3, havoc_types={"k": T.int, "j": T.int})
        return None

    def requires(S, a):
        ma = pmask1(S)
        return [("at least one label; at most maxvar parameter-like labels (else the assert fires)", z3.And(NL >= 1, CNT(ma, NL) <= a["maxvar"].t))]

    def ensures(S, a, res):
        lab = S.seq(a["labels"])
        ma, under_pow = pmask2(S)
        rf = S.b(a["replace_floats"])
        q = z3.Int(fresh_name("q!sk"))
        inr = z3.And(0 <= q, q < NL)
        mq = m_of(S, q)
        return [("the list keeps its length", lab.len == NL),
                ("without replace_floats every label is the mapped text of what the tree walk returned (numbers keep their text)", z3.Implies(z3.And(z3.Not(rf), inr), lab.get(q).t == mq)),
                ("with replace_floats: a number directly under pow that does not look like a parameter keeps its text",
                 z3.Implies(z3.And(rf, inr, ISFLOAT(mq), under_pow(q), z3.Not(paramlike(S.eng, mq))), lab.get(q).t == mq)),
                ("with replace_floats: exactly the numbers not under pow and the parameter-like labels become a<k>, k counting them in order; everything else is the mapped text",
                 z3.Implies(z3.And(rf, inr), lab.get(q).t == z3.If(z3.Select(ma, q), fmt(S, RNK(ma, NL, q)), mq)))]

    c = Contract(func, {"labels": mk_labels, "basis_functions": T.fn, "maxvar": T.int, "replace_floats": T.bool},
                 requires=requires, ensures=ensures, setup=setup, region=_relabel_region, raises=lambda S, a, e: z3.BoolVal(False))
    c.region_name = "relabel: operator names, parameters, replace_floats"
    c.loop_select = loop_select
    return c


# ------------------------------------------------------------ fit_from_string: the hand-over to single_function (C20)
def _ffs_tail_region(fnode):
    for k, t in enumerate(fnode.body):
        if isinstance(t, _ast.Assign) and isinstance(t.value, _ast.Call) and getattr(t.value.func, "id", None) == "single_function":
            return fnode.body[k:]
    return None


def ffs_forward_contract(return_params):
    """Tail of fit_from_string: the processed label list and every search setting of the caller are handed to single_function
    unchanged, exactly once, and (negloglike, DL, labels[, params]) of that call is returned."""
    names = ["pmin", "pmax", "tmax", "try_integration", "verbose", "Niter", "Nconv", "log_opt", "return_params"]

    def setup(eng, st, args):
        st.ghost["calls"] = {}

        def m(eng_, st_, a, kw, node):
            c = dict(st_.ghost["calls"])
            c["n"] = c.get("n", 0) + 1
            c["args"], c["kw"] = a, kw
            c["ret"] = VTuple([eng_.fresh(T.float, "nll", st_), eng_.fresh(T.float, "DL", st_), eng_.fresh(T.arr(T.float), "params", st_)][:3 if return_params else 2])
            st_.ghost["calls"] = c
            return c["ret"]
        eng.models["single_function"] = m

    def ensures(S, a, res):
        C = S.st.ghost["calls"]
        if C.get("n") != 1:
            return [("single_function is called exactly once", z3.BoolVal(False))]
        ar, kw = C["args"], C["kw"]
        same = lambda x, y: z3.BoolVal(isinstance(x, VRef) and isinstance(y, VRef) and x.addr == y.addr)

        def eqv(x, y):
            if isinstance(x, VBool) and isinstance(y, VBool):
                return x.t == y.t
            if isinstance(x, (VInt, VBool)) and isinstance(y, (VInt, VBool)):
                return S.eng.as_int(x) == S.eng.as_int(y)
            return z3.BoolVal(False)
        out = [("single_function gets the processed labels, the caller's basis and likelihood",
                z3.And(len(ar) == 3 and same(ar[0], a["labels"]) or z3.BoolVal(False), len(ar) == 3 and same(ar[1], a["basis_functions"]) or z3.BoolVal(False),
                       len(ar) == 3 and same(ar[2], a["likelihood"]) or z3.BoolVal(False)))]
        for n in names:
            out.append(("%s is handed on unchanged" % n, eqv(kw[n], a[n]) if n in kw else z3.BoolVal(False)))
        want = 4 if return_params else 3
        if not (isinstance(res, VTuple) and len(res.items) == want):
            return out + [("returns (negloglike, DL, labels%s)" % (", params" if return_params else ""), z3.BoolVal(False))]
        r = C["ret"].items
        out.append(("returns the likelihood and description length of that call and the processed labels",
                    z3.And(fsame(res.items[0], r[0]), fsame(res.items[1], r[1]), same(res.items[2], a["labels"]))))
        if return_params:
            out.append(("returns the parameters of that call", same(res.items[3], r[2])))
        return out

    params = {"labels": T.list(T.label), "basis_functions": T.list(T.label), "likelihood": lambda e, s: s.alloc(HObj("Lik", {})),
              "pmin": T.int, "pmax": T.int, "tmax": T.int, "try_integration": T.bool, "verbose": T.bool, "Niter": T.int, "Nconv": T.int, "log_opt": T.bool,
              "return_params": lambda e, s: VBool(return_params)}
    c = Contract("fit_from_string", params, ensures=ensures, setup=setup, region=_ffs_tail_region, raises=lambda S, a, e: z3.BoolVal(False))
    c.region_name = "hand-over to single_function"
    return c


# ------------------------------------------------------------ tree_to_aifeyn: the single-tree code-length API (C08)
def tree_to_aifeyn_contract():
    """Data flow of fit_single.tree_to_aifeyn with every callee opaque: the tree code length returned is the one aifeyn_complexity computes for
    `labels` with the parameter list a0 .. a(max_param-1), where max_param is get_max_param of the canonical string of the tree of `labels`
    (the same wiring as in the library pipeline and in single_function); the complexity returned is len(labels)."""
    def setup(eng, st, args):
        st.ghost["calls"] = {}

        def rec(name, ret):
            def m(eng_, st_, a, kw, node):
                c = dict(st_.ghost["calls"])
                if name in c:
                    c[name + "#2"] = (a, kw)
                c[name] = (a, kw)
                r = ret(eng_, st_, a, kw)
                c[name + ".ret"] = r
                st_.ghost["calls"] = c
                return r
            return m
        fl = lambda n: VLabel(z3.Const(fresh_name(n), Label))
        eng.models["generator.labels_to_shape"] = rec("labels_to_shape", lambda e, s, a, k: e.fresh(T.list(T.int), "shape", s))
        eng.models["generator.check_tree"] = rec("check_tree", lambda e, s, a, k: VTuple([VBool(z3.Bool(fresh_name("succ"))), VNone(), e.fresh(T.list(T.fn), "tree", s)]))
        eng.models["generator.node_to_string"] = rec("node_to_string", lambda e, s, a, k: fl("fstr"))
        eng.models["simplifier.get_max_param"] = rec("get_max_param", lambda e, s, a, k: VInt(z3.Int("mp")))
        eng.models["generator.aifeyn_complexity"] = rec("aifeyn_complexity", lambda e, s, a, k: e.fresh(T.float, "aifeyn", s))
        st.assume(z3.Int("mp") >= 0)

    def ensures(S, a, res):
        C = S.st.ghost["calls"]
        for n in ("labels_to_shape", "check_tree", "node_to_string", "get_max_param", "aifeyn_complexity"):
            if n not in C:
                raise Unsupported("tree_to_aifeyn no longer calls %s" % n)
        same = lambda x, y: z3.BoolVal(isinstance(x, VRef) and isinstance(y, VRef) and x.addr == y.addr)
        lab = lambda x, y: (x.t == y.t) if isinstance(x, VLabel) and isinstance(y, VLabel) else z3.BoolVal(False)
        out = [("exactly one call each", z3.BoolVal(not any(k.endswith("#2") for k in C)))]
        out.append(("shape and string come from `labels`", z3.And(same(C["labels_to_shape"][0][0], a["labels"]), same(C["check_tree"][0][0], C["labels_to_shape.ret"]),
                                                                 same(C["node_to_string"][0][2], a["labels"]), same(C["node_to_string"][0][1], C["check_tree.ret"].items[2]))))
        gm = S.seq(C["get_max_param"][0][0])
        mp = C["get_max_param.ret"].t
        out.append(("max_param is that of the tree's string", z3.And(gm.len == 1, lab(gm.get(z3.IntVal(0)), C["node_to_string.ret"]))))
        aa = C["aifeyn_complexity"][0]
        pl = S.seq(aa[1])
        j = z3.Int("j!pl")
        fmt = S.eng.label_fn("fmt:a%i", z3.IntSort())
        out.append(("the code length is computed for `labels` with the parameter list a0 .. a(max_param-1)",
                    z3.And(same(aa[0], a["labels"]), pl.len == mp, z3.ForAll([j], z3.Implies(z3.And(0 <= j, j < pl.len), pl.get(j).t == fmt(j))))))
        if not (isinstance(res, VTuple) and len(res.items) == 2):
            return out + [("returns (aifeyn, complexity)", z3.BoolVal(False))]
        out.append(("returns that code length and len(labels)", z3.And(fsame(res.items[0], C["aifeyn_complexity.ret"]),
                                                                         S.eng.as_int(res.items[1]) == S.seq(a["labels"]).len if isinstance(res.items[1], (VInt, VBool)) else z3.BoolVal(False))))
        return out

    return Contract("tree_to_aifeyn", {"labels": T.list(T.label), "basis_functions": T.list(T.label), "verbose": (T.bool, VBool(True))},
                    ensures=ensures, setup=setup, raises=lambda S, a, e: z3.BoolVal(False))
