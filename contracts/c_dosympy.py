"""Sidecar contract for step (3) of simplifier.do_sympy, "Make replacements to full functions list" (C03, C17): after the unique
functions of a round have been simplified, every function takes the new string of ITS unique function and its chain of
substitutions is extended, at the end, by exactly the substitutions that round recorded for that unique function.

  all_fun'[i]      = uniq_fun[match[all_fun[i]]]
  all_inv_subs'[i] = all_inv_subs[i]                      if nothing was recorded for that unique function (None or [])
                   = copy of add                           if all_inv_subs[i] was None
                   = all_inv_subs[i] ++ add                otherwise (old entries first, in order, then the new ones, in order)

do_sympy contains this loop twice (simplification rounds, expansion rounds); both copies are verified.  The composition lemma
connects it with the contract of get_unique_indexes (match[v] is the position of v among the keys, i.e. among the unique strings
before the round's simplification): if the round's rewriting of unique m is justified by the substitutions recorded for m
(an uninterpreted relation REL(old string, recorded list, new string) -- the per-step contract of sympy_simplify, assumed), then
every function's rewriting is justified by what was appended to its chain."""
import ast as _ast
import z3
from pyvc.engine import Contract, LoopSpec
from pyvc.values import T, VInt, VLabel, VRef, VMaybeNone, VNone, HSeq, HDict, Label, Unsupported, fresh_name

N, NU = z3.Int("len_all_fun"), z3.Int("len_uniq_fun")
MH = z3.Function("match.has", Label, z3.BoolSort())
MV = z3.Function("match.val", Label, z3.IntSort())


def _loops(fnode):
    out = []
    for n in _ast.walk(fnode):
        if isinstance(n, _ast.For) and any(isinstance(t, _ast.Assign) and isinstance(t.targets[0], _ast.Subscript) and getattr(t.targets[0].value, "id", None) == "all_fun" and
                                           isinstance(t.value, _ast.Subscript) and getattr(t.value.value, "id", None) == "uniq_fun" for t in n.body):
            out.append(n)
    return sorted(out, key=lambda n: n.lineno)


def replace_contract(which):
    def region(fnode):
        ls = _loops(fnode)
        return [ls[which]] if which < len(ls) else None

    def mk(et, name, n, ghost):
        def f(eng, st):
            v = eng.fresh(T.list(et), name, st)
            st.heap[v.addr].len = n
            st.ghost[ghost] = st.heap[v.addr].get
            return v
        return f

    def requires(S, a):
        A0 = S.st.ghost["A0"]
        i = z3.Int("i!rq")
        return [("every function's string is a key of match, and match points into the unique list (get_unique_indexes on all_fun, before the round)",
                 z3.ForAll([i], z3.Implies(z3.And(0 <= i, i < N), z3.And(MH(A0(i).t), 0 <= MV(A0(i).t), MV(A0(i).t) < NU)))),
                ("lists", z3.And(N >= 0, NU >= 0))]

    def row(S, v):
        """(isnone, len, get) of an optional list value"""
        if isinstance(v, VMaybeNone):
            o = S.st.heap[v.val.addr]
            return v.isnone, o.len, o.get
        if isinstance(v, VNone):
            return z3.BoolVal(True), z3.IntVal(0), (lambda k: VLabel(S.eng.label_of("")))
        if isinstance(v, VRef):
            o = S.st.heap[v.addr]
            return z3.BoolVal(False), o.len, o.get
        raise Unsupported("chain value %r" % (v,))

    def same_row(S, x, y, tag):
        xn, xl, xg = row(S, x)
        yn, yl, yg = row(S, y)
        k = z3.Int(fresh_name("k!" + tag))
        return z3.And(xn == yn, z3.Implies(z3.Not(xn), z3.And(xl == yl, z3.ForAll([k], z3.Implies(z3.And(0 <= k, k < xl), xg(k).t == yg(k).t)))))

    def done(S, p):
        af, ai = S.seq(S.var("all_fun")), S.seq(S.var("all_inv_subs"))
        uf, ad = S.seq(S.var("uniq_fun")), S.seq(S.var("add_inv_subs"))
        A0, I0 = S.st.ghost["A0"], S.st.ghost["I0"]
        m = MV(A0(p).t)
        an, al, ag = row(S, ad.get(m))
        on, ol, og = row(S, I0(p))
        nn, nl, ng = row(S, ai.get(p))
        k = z3.Int(fresh_name("k!dn"))
        nothing = z3.Or(an, al == 0)
        ext = z3.And(z3.Not(nn), nl == z3.If(on, 0, ol) + al,
                     z3.ForAll([k], z3.Implies(z3.And(0 <= k, k < nl), ng(k).t == z3.If(z3.And(z3.Not(on), k < ol), og(k).t, ag(k - z3.If(on, 0, ol)).t))))
        return z3.And(af.get(p).t == uf.get(m).t, z3.If(nothing, same_row(S, ai.get(p), I0(p), "dn"), ext))

    def todo(S, p):
        af, ai = S.seq(S.var("all_fun")), S.seq(S.var("all_inv_subs"))
        A0, I0 = S.st.ghost["A0"], S.st.ghost["I0"]
        return z3.And(af.get(p).t == A0(p).t, same_row(S, ai.get(p), I0(p), "td"))

    def state(S, upto):
        af, ai = S.seq(S.var("all_fun")), S.seq(S.var("all_inv_subs"))
        p, p2 = z3.Int(fresh_name("p!st")), z3.Int(fresh_name("p2!st"))
        A0 = S.st.ghost["A0"]
        return [("both lists keep their length", z3.And(af.len == N, ai.len == N)),
                ("functions visited so far carry their unique function's new string and the extended chain",
                 z3.ForAll([p], z3.Implies(z3.And(0 <= p, p < upto), done(S, p)), patterns=[A0(p).t])),
                ("functions not yet visited are untouched", z3.ForAll([p2], z3.Implies(z3.And(upto <= p2, p2 < N), todo(S, p2)), patterns=[A0(p2).t]))]

    def inv(S, st):
        return state(S, S.var("__i").t)

    def ensures(S, a, res):
        p = z3.Int(fresh_name("p!sk"))
        return [("lengths unchanged", state(S, N)[0][1]),
                ("every function carries the new string of its own unique function, and its chain is the old chain followed by what the round recorded for that unique function",
                 z3.Implies(z3.And(0 <= p, p < N), done(S, p)))]

    def mk_match(eng, st):
        return st.alloc(HDict(lambda t: MH(t), lambda t: VInt(MV(t)), None))

    c = Contract("do_sympy", {"all_fun": mk(T.label, "all_fun", N, "A0"), "all_inv_subs": mk(T.opt(T.list(T.label)), "all_inv_subs", N, "I0"),
                              "uniq_fun": mk(T.label, "uniq_fun", NU, "U1"), "add_inv_subs": mk(T.opt(T.list(T.label)), "add_inv_subs", NU, "ADD"),
                              "match": mk_match},
                 requires=requires, ensures=ensures, region=region, raises=lambda S, a, e: z3.BoolVal(False))
    c.loop_select = lambda node: LoopSpec(inv, havoc_types={"old_fun": T.label, "m": T.int})
    c.region_name = "replacements to the full list (%s rounds)" % ("simplification" if which == 0 else "expansion")
    return c


def composition_lemma():
    """get_unique_indexes: U0[match[v]] = v for every string v of all_fun.  If REL(U0[m], ADD(m), U1[m]) for every unique m, then
    REL(A0[i], ADD(match[A0[i]]), all_fun'[i]) for every function i, where all_fun'[i] = U1[match[A0[i]]] (postcondition above)."""
    A0 = z3.Function("A0", z3.IntSort(), Label)
    A1 = z3.Function("A1", z3.IntSort(), Label)
    U0 = z3.Function("U0", z3.IntSort(), Label)
    U1 = z3.Function("U1", z3.IntSort(), Label)
    REL = z3.Function("REL", Label, z3.IntSort(), Label, z3.BoolSort())     # REL(old string, id of the recorded list, new string)
    i, m = z3.Ints("i m")
    hyp = z3.And(z3.ForAll([i], z3.Implies(z3.And(0 <= i, i < N), z3.And(MH(A0(i)), 0 <= MV(A0(i)), MV(A0(i)) < NU, U0(MV(A0(i))) == A0(i)))),
                 z3.ForAll([m], z3.Implies(z3.And(0 <= m, m < NU), REL(U0(m), m, U1(m)))),
                 z3.ForAll([i], z3.Implies(z3.And(0 <= i, i < N), A1(i) == U1(MV(A0(i))))))
    k = z3.Int("k")
    return [("every function's rewriting in a round is justified by the substitutions recorded for its unique function",
             z3.Implies(z3.And(hyp, 0 <= k, k < N), REL(A0(k), MV(A0(k)), A1(k))))]


# ------------------------------------------------------------ duplicate_checker.main: "Combining Inverse Subs" (C03, C17)
def _combine_region(fnode):
    """`if rank == 0: all_inv_subs = [[]] * ntot ...` and the `for r in range(nround)` loop that follows it"""
    for k, s in enumerate(fnode.body):
        if isinstance(s, _ast.If) and any(isinstance(t, _ast.Assign) and getattr(t.targets[0], "id", None) == "all_inv_subs" for t in s.body):
            if k + 1 < len(fnode.body) and isinstance(fnode.body[k + 1], _ast.For) and \
                    any(isinstance(c, _ast.Call) and getattr(c.func, "attr", None) == "load_subs" for c in _ast.walk(fnode.body[k + 1])):
                return [s, fnode.body[k + 1]]
    return None


I_ = z3.IntSort()
NT = z3.Int("ntot")
NR = z3.Int("nround")
RLEN = z3.Function("round.rows", I_, I_)                 # rows of round r's map file (= lines of its index file)
RIDX = z3.Function("round.idx", I_, I_, I_)              # line i of inv_idx_<c>_round_<r>.txt: the function the row belongs to
RROW = z3.Function("round.rowlen", I_, I_, I_)           # number of substitutions in row i
RE = z3.Function("round.entry", I_, I_, I_, Label)       # substitution k of row i
HASR = z3.Function("round.has", I_, I_, z3.BoolSort())   # function f has a row in round r
WR = z3.Function("round.rowof", I_, I_, I_)              # ... and this is the row
CLEN = z3.Function("chain.len", I_, I_, I_)              # length of function f's chain after rounds 0..r-1
CGET = z3.Function("chain.get", I_, I_, I_, Label)


def combine_rounds_contract():
    """Rank-0 view.  Chain of function f after the loop = the rows recorded for f in rounds 0, 1, ..., nround-1, concatenated in that
    order (CLEN/CGET are defined by recursion on the round number; a round in which f has no row contributes nothing)."""
    from pyvc.engine import Heap

    def setup(eng, st, args):
        st.env["rank"] = VInt(0)
        r, i, i2, f, k = z3.Ints("r!ax i!ax i2!ax f!ax k!ax")
        eng.axioms += [
            z3.ForAll([r], RLEN(r) >= 0, patterns=[RLEN(r)]),
            z3.ForAll([r, i], z3.Implies(z3.And(0 <= i, i < RLEN(r)), z3.And(RROW(r, i) >= 0, HASR(r, RIDX(r, i)), WR(r, RIDX(r, i)) == i)), patterns=[RIDX(r, i)]),
            z3.ForAll([r, f], z3.Implies(HASR(r, f), z3.And(0 <= WR(r, f), WR(r, f) < RLEN(r), RIDX(r, WR(r, f)) == f)), patterns=[HASR(r, f)]),
            z3.ForAll([f], CLEN(z3.IntVal(0), f) == 0, patterns=[CLEN(z3.IntVal(0), f)]),
            z3.ForAll([r, f], z3.Implies(r >= 0, CLEN(r + 1, f) == CLEN(r, f) + z3.If(HASR(r, f), RROW(r, WR(r, f)), 0)), patterns=[CLEN(r + 1, f)]),
            z3.ForAll([r, f, k], z3.Implies(r >= 0, CGET(r + 1, f, k) == z3.If(k < CLEN(r, f), CGET(r, f, k), RE(r, WR(r, f), k - CLEN(r, f)))), patterns=[CGET(r + 1, f, k)]),
        ]

        def rows(r):
            def row(i):
                eng._addr += 1
                Heap.shared[eng._addr] = HSeq(RROW(r, i), lambda k, i=i: VLabel(RE(r, i, k)), etype=T.label)
                return VRef(eng._addr)
            return row

        def m_load_subs(eng_, st_, a, kw, node):
            r = eng_.as_int(st_.env["r"])
            return st_.alloc(HSeq(RLEN(r), rows(r), etype=T.list(T.label)))

        def m_loadtxt(eng_, st_, a, kw, node):
            r = eng_.as_int(st_.env["r"])
            return st_.alloc(HSeq(RLEN(r), lambda i: VInt(RIDX(r, i)), numpy=True, etype=T.int))
        eng.models["simplifier.load_subs"] = m_load_subs
        eng.models["np.loadtxt"] = m_loadtxt
        eng.models["np.atleast_1d"] = lambda e, s, a, k, n: a[0]

    def requires(S, a):
        r, i = z3.Ints("r!rq i!rq")
        return [("nround >= 0, ntot >= 0", z3.And(NR >= 0, NT >= 0)),
                ("every line of a round's index file is a function index (the writer lists indices of all_inv_subs; distinctness is in the witness axioms)",
                 z3.ForAll([r, i], z3.Implies(z3.And(0 <= r, r < NR, 0 <= i, i < RLEN(r)), z3.And(0 <= RIDX(r, i), RIDX(r, i) < NT)), patterns=[RIDX(r, i)]))]

    def row_is(S, f, rr):
        ai = S.seq(S.var("all_inv_subs"))
        v = ai.get(f)
        if not isinstance(v, VRef):
            return z3.BoolVal(False)
        o = S.st.heap[v.addr]
        k = z3.Int(fresh_name("k!ri"))
        e = o.get(k)
        if not isinstance(e, VLabel):
            return z3.And(o.len == CLEN(rr, f), o.len == 0)        # the element function of an empty list literal: only the empty chain is representable
        return z3.And(o.len == CLEN(rr, f), z3.ForAll([k], z3.Implies(z3.And(0 <= k, k < o.len), e.t == CGET(rr, f, k))))

    def outer(S, st):
        r = S.var("__i").t
        ai = S.seq(S.var("all_inv_subs"))
        f = z3.Int(fresh_name("f!o"))
        return [("one chain per function", ai.len == NT),
                ("every chain is the concatenation of the function's rows of the rounds read so far", z3.ForAll([f], z3.Implies(z3.And(0 <= f, f < NT), row_is(S, f, r))))]

    def inner(S, st):
        r = S.eng.as_int(S.var("r"))
        i = S.var("__i").t
        ai = S.seq(S.var("all_inv_subs"))
        f = z3.Int(fresh_name("f!i"))
        return [("one chain per function", ai.len == NT),
                ("functions whose row of this round has been read carry it at the end of their chain, the others are as after the previous round",
                 z3.ForAll([f], z3.Implies(z3.And(0 <= f, f < NT), z3.If(z3.And(HASR(r, f), WR(r, f) < i), row_is(S, f, r + 1), row_is(S, f, r)))))]

    def ensures(S, a, res):
        f = z3.Int(fresh_name("f!sk"))
        ai = S.seq(S.var("all_inv_subs"))
        return [("one chain per function", ai.len == NT),
                ("the chain of every function is the concatenation, in round order, of the rows recorded for it", z3.Implies(z3.And(0 <= f, f < NT), row_is(S, f, NR)))]

    def loop_select(node):
        if isinstance(node, _ast.For) and isinstance(node.target, _ast.Name) and node.target.id == "r":
            return LoopSpec(outer, havoc_types={"all_inv_subs": T.list(T.list(T.label)), "inv": T.list(T.list(T.label)), "idx": T.arr(T.int), "i": T.int, "j": T.int})
        if isinstance(node, _ast.For) and isinstance(node.target, _ast.Tuple):
            return LoopSpec(inner, havoc_types={"all_inv_subs": T.list(T.list(T.label)), "i": T.int, "j": T.int})
        return None

    c = Contract("main", {"ntot": lambda e, s: VInt(NT), "nround": lambda e, s: VInt(NR), "max_param": T.int, "dirname": T.label, "compl": T.int},
                 requires=requires, ensures=ensures, setup=setup, region=_combine_region, raises=lambda S, a, e: z3.BoolVal(False))
    c.loop_select = loop_select
    c.region_name = "combining the rounds' maps"
    return c


# ------------------------------------------------------------ sympy_simplify: applying the gathered merges (C03)
NCH = z3.Int("n_changes")
CI = z3.Function("change_idx", I_, I_)            # change_indices[i]: the function that is rewritten
RI = z3.Function("ref_idx", I_, I_)               # ref_indices[i]: the function whose string it takes
SI = z3.Function("new_sub", I_, Label)            # new_inv_subs[i]: the substitution that justifies it
HASC = z3.Function("is.changed", I_, z3.BoolSort())
FIRSTC = z3.Function("first.change", I_, I_)      # the first proposal that names function p
RELS = z3.Function("REL1", Label, Label, Label, z3.BoolSort())    # REL1(f, s, g): function string f with substitution s applied is function g


def _apply_loops(fnode):
    out = []
    for n in _ast.walk(fnode):
        if isinstance(n, _ast.For) and any(isinstance(t, _ast.Assign) and isinstance(t.targets[0], _ast.Subscript) and getattr(t.targets[0].value, "id", None) == "all_fun" and
                                           isinstance(t.value, _ast.Subscript) and getattr(t.value.value, "id", None) == "all_fun" for t in _ast.walk(n)):
            out.append(n)
    return sorted(out, key=lambda n: n.lineno)


def apply_changes_contract(which):
    """The loop of sympy_simplify that applies the merges proposed by all ranks (triples: function n, reference m, substitution s, found on
    the strings as they were BEFORE the loop, with REL1(all_fun[n], s, all_fun[m])).  A proposal is applied only if neither n nor m is named by
    an earlier proposal as the function to change; then n takes m's string and expression and s is appended to n's chain.  Proved: every function
    either keeps string and chain, or it holds the ORIGINAL string of its reference with exactly one substitution appended that justifies it
    (REL1(original string, s, new string)) -- the guard is what makes the reference's string still the one the proposal was found for.
    Assumption (A-alias): the rows of all_inv_subs are not read through another name during the loop (the local slices are recomputed after it)."""
    def region(fnode):
        ls = _apply_loops(fnode)
        return [ls[which]] if which < len(ls) else None

    def mk(et, name, ghost):
        def f(eng, st):
            v = eng.fresh(T.list(et), name, st)
            st.heap[v.addr].len = N
            st.ghost[ghost] = st.heap[v.addr].get
            return v
        return f

    def mk_seq(fn, et, numpy=False):
        return lambda eng, st: st.alloc(HSeq(NCH, lambda k: (VInt(fn(k)) if et == "int" else VLabel(fn(k))), etype=T.int if et == "int" else T.label))

    def setup(eng, st, args):
        eng.nested_append = True
        j, p = z3.Ints("j!ax p!ax")
        eng.axioms += [
            z3.ForAll([j], z3.Implies(z3.And(0 <= j, j < NCH), z3.And(HASC(CI(j)), FIRSTC(CI(j)) <= j)), patterns=[CI(j)]),
            z3.ForAll([p], z3.Implies(HASC(p), z3.And(0 <= FIRSTC(p), FIRSTC(p) < NCH, CI(FIRSTC(p)) == p)), patterns=[HASC(p)]),
        ]

    def requires(S, a):
        A0 = S.st.ghost["A0"]
        j = z3.Int("j!rq")
        return [("every proposal names two different functions of the list", z3.ForAll([j], z3.Implies(z3.And(0 <= j, j < NCH),
                 z3.And(0 <= CI(j), CI(j) < N, 0 <= RI(j), RI(j) < N, CI(j) != RI(j))), patterns=[CI(j)])),
                ("every proposal was found on the strings before the loop: REL1(all_fun[n], s, all_fun[m])",
                 z3.ForAll([j], z3.Implies(z3.And(0 <= j, j < NCH), RELS(A0(CI(j)).t, SI(j), A0(RI(j)).t)), patterns=[SI(j)])),
                ("lists", z3.And(N >= 0, NCH >= 0))]

    def applied(j):
        """proposal j is the first one naming its function, and its reference is not named (as a function to change) by an earlier proposal"""
        return z3.And(FIRSTC(CI(j)) == j, z3.Not(z3.And(HASC(RI(j)), FIRSTC(RI(j)) < j)))

    def rowof(S, v):
        if isinstance(v, VMaybeNone):
            o = S.st.heap[v.val.addr]
            return v.isnone, o.len, o.get
        if isinstance(v, VRef):
            o = S.st.heap[v.addr]
            return z3.BoolVal(False), o.len, o.get
        return z3.BoolVal(True), z3.IntVal(0), (lambda k: VLabel(S.eng.label_of("")))

    def state(S, upto, p):
        """what is known about function p after the first `upto` proposals"""
        af, asy, ai = S.seq(S.var("all_fun")), S.seq(S.var("all_sym")), S.seq(S.var("all_inv_subs"))
        A0, Y0, I0 = S.st.ghost["A0"], S.st.ghost["Y0"], S.st.ghost["I0"]
        j = FIRSTC(p)
        ch = z3.And(HASC(p), j < upto, applied(j))
        on, ol, og = rowof(S, I0(p))
        nn, nl, ng = rowof(S, ai.get(p))
        k = z3.Int(fresh_name("k!st"))
        e = ng(k)
        et = e.t if isinstance(e, VLabel) else None
        changed = z3.And(af.get(p).t == A0(RI(j)).t, asy.get(p).t == Y0(RI(j)).t, z3.Not(nn), nl == z3.If(on, 0, ol) + 1,
                         z3.ForAll([k], z3.Implies(z3.And(0 <= k, k < nl), et == z3.If(z3.And(z3.Not(on), k < ol), og(k).t, SI(j)))) if et is not None else z3.BoolVal(False))
        same_ = z3.And(af.get(p).t == A0(p).t, asy.get(p).t == Y0(p).t, nn == on,
                       z3.Implies(z3.Not(nn), z3.And(nl == ol, z3.ForAll([k], z3.Implies(z3.And(0 <= k, k < nl), et == og(k).t)) if et is not None else nl == 0)))
        return z3.If(ch, changed, same_)

    def inv(S, st):
        i = S.var("__i").t
        af, asy, ai = S.seq(S.var("all_fun")), S.seq(S.var("all_sym")), S.seq(S.var("all_inv_subs"))
        p = z3.Int(fresh_name("p!ac"))
        A0 = S.st.ghost["A0"]
        return [("the three lists keep their length", z3.And(af.len == N, asy.len == N, ai.len == N)),
                ("every function is either untouched or holds the original string and expression of its reference, with the proposal's substitution appended to its chain",
                 z3.ForAll([p], z3.Implies(z3.And(0 <= p, p < N), state(S, i, p)), patterns=[A0(p).t]))]

    def ensures(S, a, res):
        p = z3.Int(fresh_name("p!sk"))
        af = S.seq(S.var("all_fun"))
        A0 = S.st.ghost["A0"]
        j = FIRSTC(p)
        return [("lengths unchanged", inv(S, S.st)[0][1] if False else z3.And(af.len == N)),
                ("every function is untouched, or took its reference's original string/expression and got the proposal's substitution appended", z3.Implies(z3.And(0 <= p, p < N), state(S, NCH, p))),
                ("semantic corollary: a rewritten function's new string is justified by the appended substitution: REL1(old string, s, new string)",
                 z3.Implies(z3.And(0 <= p, p < N, af.get(p).t != A0(p).t), z3.And(HASC(p), RELS(A0(p).t, SI(j), af.get(p).t))))]

    c = Contract("sympy_simplify", {"all_fun": mk(T.label, "all_fun", "A0"), "all_sym": mk(T.fn, "all_sym", "Y0"), "all_inv_subs": mk(T.opt(T.list(T.label)), "all_inv_subs", "I0"),
                                    "change_indices": mk_seq(CI, "int"), "ref_indices": mk_seq(RI, "int"), "new_inv_subs": mk_seq(SI, "label")},
                 requires=requires, ensures=ensures, setup=setup, region=region, raises=lambda S, a, e: z3.BoolVal(False))
    c.loop_select = lambda node: LoopSpec(inv)
    c.region_name = "applying the proposed merges (%s)" % ("parameter permutations" if which == 0 else "sign flips")
    return c


# ------------------------------------------------------------ timeout handlers that re-align parallel lists (C15)
def _realign_handlers(fnode):
    """bodies (the `nkeep = min(...)`, `del ...` pair) of the TimeoutException handlers that truncate parallel lists, in source order"""
    out = []
    for n in _ast.walk(fnode):
        if isinstance(n, _ast.ExceptHandler):
            b = n.body
            for k in range(len(b) - 1):
                if isinstance(b[k], _ast.Assign) and isinstance(b[k].value, _ast.Call) and getattr(b[k].value.func, "id", None) == "min" and isinstance(b[k + 1], _ast.Delete):
                    out.append((n.lineno, [b[k], b[k + 1]]))
    return [x[1] for x in sorted(out, key=lambda x: x[0])]


def realign_contract(qual, which):
    """After the handler the parallel lists have the same length -- the shortest of the lengths they had when the timeout struck -- and each
    is the prefix of what it was: a record that was only partly appended is dropped from every list, complete records stay in place."""
    def region(fnode):
        hs = _realign_handlers(fnode)
        return hs[which] if which < len(hs) else None

    def names_of(body):
        return [t.value.id for t in body[1].targets if isinstance(t, _ast.Subscript) and isinstance(t.value, _ast.Name)]

    holder = {}

    def setup(eng, st, args):
        holder["orig"] = {n: (st.heap[v.addr].len, st.heap[v.addr].get) for n, v in args.items()}

    def ensures(S, a, res):
        orig = holder["orig"]
        k = z3.Int(fresh_name("k!sk"))
        lens = [l for l, g in orig.values()]
        m = lens[0]
        for l in lens[1:]:
            m = z3.If(l < m, l, m)
        out = []
        for n, (l0, g0) in orig.items():
            o = S.seq(S.var(n))
            e, e0 = o.get(k), g0(k)
            out.append(("%s is cut to the shortest of the lists' lengths" % n, o.len == m))
            out.append(("%s keeps its first entries" % n, z3.Implies(z3.And(0 <= k, k < m), S.eng.key_term(e) == S.eng.key_term(e0))))
        return out

    class Lazy(dict):
        pass
    # the parameter list depends on the handler's text: it is read off the `del` statement when the engine is created
    def make(eng):
        fnode = eng.find_function(qual)
        hs = _realign_handlers(fnode)
        if which >= len(hs):
            raise Unsupported("re-aligning handler #%d of %s not found" % (which, qual))
        ns = names_of(hs[which])
        if len(ns) < 2:
            raise Unsupported("the handler truncates fewer than two lists")
        c = Contract(qual, {n: T.list(T.fn) for n in ns}, ensures=ensures, setup=setup, region=region, raises=lambda S, a, e: z3.BoolVal(False))
        c.region_name = "timeout handler #%d re-aligning %s" % (which, ", ".join(ns))
        return c
    make.needs_engine = True
    return make


# ------------------------------------------------------------------ do_sympy: every pass that rewrites functions leaves its round files (C03, C17, C15)
def round_loop_obligations(fnode):
    """Step (3) of a pass rewrites all_fun and extends the chains in memory; what duplicate_checker.main later combines are the ROUND FILES.  A pass whose files are not
    written (or not counted in the number of rounds handed back) loses the maps it recorded.  Structural obligations on the two `while` loops of do_sympy:
      - nothing leaves a pass early: no break / continue / return at the level of the loop body (inner loops may have their own);
      - the body writes inv_idx_..._round_<k> and inv_subs_..._round_<k> with k built from the pass counter, under rank 0, and ends with the increment of that counter;
      - the function returns the total number of passes (first-loop count + second-loop count)."""
    import ast
    if fnode.name != "do_sympy":
        return []
    loops = [s for s in fnode.body if isinstance(s, ast.While)]
    if not loops:
        return []
    out = []

    def escapes(stmts):
        found = []
        for s in stmts:
            if isinstance(s, (ast.Break, ast.Continue, ast.Return)):
                found.append((type(s).__name__.lower(), s.lineno))
            elif isinstance(s, (ast.For, ast.While)):
                # break / continue inside belong to the inner loop; a return would leave the function
                found += [("return", n.lineno) for n in ast.walk(s) if isinstance(n, ast.Return)]
            elif isinstance(s, (ast.FunctionDef, ast.ClassDef)):
                continue
            else:
                for f in ("body", "orelse", "finalbody"):
                    b = getattr(s, f, None)
                    if isinstance(b, list):
                        found += escapes(b)
                for h in getattr(s, "handlers", []) or []:
                    found += escapes(h.body)
        return found
    counters = []
    for k, w in enumerate(loops):
        esc = escapes(w.body)
        out.append(("pass loop %d (line %d): nothing leaves a pass before its end%s" % (k, w.lineno, (" (found %s)" % esc) if esc else ""), not esc, w.lineno))
        last = w.body[-1]
        ctr = last.target.id if isinstance(last, ast.AugAssign) and isinstance(last.op, ast.Add) and isinstance(last.target, ast.Name) and \
            isinstance(last.value, ast.Constant) and last.value.value == 1 else None
        out.append(("pass loop %d: the body ends with the increment of its pass counter" % k, ctr is not None, last.lineno))
        counters.append(ctr)
        opens = [n for n in ast.walk(w) if isinstance(n, ast.Call) and isinstance(n.func, ast.Name) and n.func.id == "open" and n.args and "_round_" in ast.unparse(n.args[0])]
        kinds = sorted({"inv_idx" if "inv_idx" in ast.unparse(n.args[0]) else "inv_subs" if "inv_subs" in ast.unparse(n.args[0]) else "?" for n in opens})
        uses = all(ctr is not None and any(isinstance(m, ast.Name) and m.id == ctr for m in ast.walk(n.args[0])) for n in opens)
        mode_w = all(len(n.args) > 1 and isinstance(n.args[1], ast.Constant) and n.args[1].value == "w" for n in opens)
        out.append(("pass loop %d: every pass writes both round files (inv_idx, inv_subs), named after the pass counter, in truncating mode" % k,
                    kinds == ["inv_idx", "inv_subs"] and uses and mode_w, w.lineno))
    rets = [n for n in ast.walk(fnode) if isinstance(n, ast.Return) and isinstance(n.value, ast.Tuple) and len(n.value.elts) == 3]
    ok = False
    if rets and len(loops) == 2 and all(counters):
        names = {m.id for m in ast.walk(rets[-1].value.elts[2]) if isinstance(m, ast.Name)}
        # the first loop's count is saved under another name before the counter is reused
        saved = {s.targets[0].id for s in fnode.body if isinstance(s, ast.Assign) and isinstance(s.targets[0], ast.Name) and isinstance(s.value, ast.Name) and s.value.id == counters[0]}
        ok = counters[1] in names and bool(names & (saved | {counters[0]})) and isinstance(rets[-1].value.elts[2], ast.BinOp) and isinstance(rets[-1].value.elts[2].op, ast.Add)
    out.append(("the number of rounds handed back is the number of passes of both loops", ok, rets[-1].lineno if rets else fnode.lineno))
    return out
