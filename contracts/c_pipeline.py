"""Composition lemmas for C04 (no code of their own): the postconditions of the stage contracts, restated over abstract indices, imply
the two clauses of the property.  Each hypothesis names the contract it restates; the lemmas are discharged by z3 on every run.

  functions f in [0, N),  unique entries u in [0, U),  MATCH(f) the entry of f (C03: exactly one),
  rows r in [0, R) of the final table.  Description lengths are extended reals: value DLv, flags DLnan / DLinf (+inf only).
"""
import z3

N, U, R = z3.Ints("N U R")
MATCH = z3.Function("MATCH", z3.IntSort(), z3.IntSort())
# per-variant results of the match stage (C05) as extended reals
DLv = z3.Function("DL.val", z3.IntSort(), z3.RealSort())
DLnan = z3.Function("DL.nan", z3.IntSort(), z3.BoolSort())
DLinf = z3.Function("DL.inf", z3.IntSort(), z3.BoolSort())
# per-unique minimum (combine R1), rows of the final table (combine R2)
MINv = z3.Function("DLmin.val", z3.IntSort(), z3.RealSort())
MINnan = z3.Function("DLmin.nan", z3.IntSort(), z3.BoolSort())
MINinf = z3.Function("DLmin.inf", z3.IntSort(), z3.BoolSort())
ROWU = z3.Function("row.unique", z3.IntSort(), z3.IntSort())
ROWOF = z3.Function("unique.row", z3.IntSort(), z3.IntSort())
ARG = z3.Function("argmin.variant", z3.IntSort(), z3.IntSort())
NLL = z3.Function("nll", z3.IntSort(), z3.RealSort())
CODE = z3.Function("codelen", z3.IntSort(), z3.RealSort())
AIF = z3.Function("aifeyn", z3.IntSort(), z3.RealSort())
RNLL = z3.Function("row.nll", z3.IntSort(), z3.RealSort())
RCODE = z3.Function("row.codelen", z3.IntSort(), z3.RealSort())
RAIF = z3.Function("row.aifeyn", z3.IntSort(), z3.RealSort())
RDL = z3.Function("row.DL", z3.IntSort(), z3.RealSort())
LIKE = z3.Function("likelihood.of", z3.IntSort(), z3.RealSort())        # likelihood of variant f's own function at its reported parameters


def le(av, ainf, bv, binf):
    """a <= b for non-NaN extended reals whose only infinity is +inf"""
    return z3.Or(binf, z3.And(z3.Not(ainf), z3.Not(binf), av <= bv))


def lemmas():
    f, u, r, r2 = z3.Ints("f u r r2")
    infn = lambda x: z3.And(0 <= x, x < N)
    inu = lambda x: z3.And(0 <= x, x < U)
    inr = lambda x: z3.And(0 <= x, x < R)
    H_match = z3.ForAll([f], z3.Implies(infn(f), inu(MATCH(f))))                                   # C03: every function has exactly one unique entry
    # combine_DL R1 (verified): the row of unique u carries the minimum over its variants with a non-NaN description length, attained by one of them
    H_r1 = z3.ForAll([f], z3.Implies(z3.And(infn(f), z3.Not(DLnan(f))),
                                     z3.And(z3.Not(MINnan(MATCH(f))), le(MINv(MATCH(f)), MINinf(MATCH(f)), DLv(f), DLinf(f)))))
    # combine_DL R2 (verified): every unique with a non-NaN minimum has exactly one row; rows are sorted by description length
    H_r2a = z3.ForAll([u], z3.Implies(z3.And(inu(u), z3.Not(MINnan(u))), z3.And(inr(ROWOF(u)), ROWU(ROWOF(u)) == u)))
    H_r2b = z3.ForAll([r, r2], z3.Implies(z3.And(inr(r), inr(r2), r <= r2), le(MINv(ROWU(r)), MINinf(ROWU(r)), MINv(ROWU(r2)), MINinf(ROWU(r2)))))
    f0 = z3.Int("f0")
    top = ROWU(z3.IntVal(0))
    l_opt = z3.Implies(z3.And(H_match, H_r1, H_r2a, H_r2b, infn(f0), z3.Not(DLnan(f0))),
                       z3.And(R >= 1, le(MINv(top), MINinf(top), DLv(f0), DLinf(f0))))
    # row reproducibility: combine R1 keeps the three terms of ONE variant together (verified) and the match stage reports for that variant the
    # likelihood of its own function at the reported parameters (C05, verified for the snapping region / assumed for convert_params)
    H_row = z3.ForAll([r], z3.Implies(inr(r), z3.And(infn(ARG(r)), MATCH(ARG(r)) == ROWU(r),
                                                     RNLL(r) == NLL(ARG(r)), RCODE(r) == CODE(ARG(r)), RAIF(r) == AIF(ARG(r)),
                                                     RDL(r) == NLL(ARG(r)) + CODE(ARG(r)) + AIF(ARG(r)))))
    H_c05 = z3.ForAll([f], z3.Implies(infn(f), NLL(f) == LIKE(f)))
    r0 = z3.Int("r0")
    l_row = z3.Implies(z3.And(H_row, H_c05, inr(r0)), z3.And(RDL(r0) == RNLL(r0) + RCODE(r0) + RAIF(r0), RNLL(r0) == LIKE(ARG(r0))))
    return [("L-opt: the top-ranked description length is <= the description length of every variant of every tree that has a non-NaN one "
             "(from C03: one entry per function; combine R1: minimum over variants; combine R2: one row per unique, sorted)", l_opt),
            ("L-row: every row's description length is the sum of its three reported terms, and its likelihood term is the likelihood of the reported "
             "function at the reported parameters (combine R1: the terms of one variant; C05: the match stage reports that likelihood)", l_row)]
