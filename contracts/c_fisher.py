"""Sidecar contract for the snapping / code-length region of test_all_Fisher.convert_params (C07).

Region = from the second curvature test (`if (np.sum(Fisher_diag <= 0.) > 0.) or (np.sum(np.isnan(Fisher_diag)) > 0)` that
directly sets codelen = nan) to the end of the function.  Given there: Fisher_diag, theta_ML (length nparam), Nsteps as the
code computed it (|theta| / sqrt(12 / Fisher)), the likelihood `fop` as an uninterpreted function of the parameter vector."""
import ast
import z3
from pyvc.engine import Contract
from pyvc.values import (T, VInt, VFloat, VFn, VRef, VTuple, HSeq, Fn, Unsupported, fresh_name, LN, SQRT,
                         fadd, fsub, fmul, fdiv, flog, fsqrt, fabs, fsame, feq, fle, flt, as_float)
from pyvc import models as M

NLLF_v = z3.Function("NLLF.val", M.RealArr, z3.RealSort())
NLLF_fin = z3.Function("NLLF.fin", M.RealArr, z3.BoolSort())


def region(fnode):
    body = fnode.body
    for k, s in enumerate(body):
        if isinstance(s, ast.If) and len(s.body) == 2 and isinstance(s.body[0], ast.Assign) and \
                isinstance(s.body[0].targets[0], ast.Name) and s.body[0].targets[0].id == "codelen" and isinstance(s.body[1], ast.Return):
            src = ast.dump(s.test)
            if "Fisher_diag" in src and "isinf" not in src:
                return body[k:]
    return None


def nsteps_of(theta, F):
    """The code's own expression: abs(theta) / sqrt(12 / F)."""
    return fdiv(fabs(theta), fsqrt(fdiv(VFloat(12), F)))


def fisher_region_contract(finite_like=True):
    NPAR = z3.Int("nparam")
    MAXP = z3.Int("max_param")

    def arr(name, etype, n):
        def mk(eng, st):
            v = eng.fresh(T.arr(etype), name, st)
            st.heap[v.addr].len = n
            return v
        return mk

    def mk_nsteps(eng, st):
        # Nsteps = |theta| / sqrt(12 / Fisher) is computed just before the region (two lines, exercised by the bounded
        # stand-in); inside the region it is an array of finite non-negative numbers whenever the curvature is good
        v = eng.fresh(T.arr(T.float), "Nsteps", st)
        st.heap[v.addr].len = NPAR
        st.ghost["N0"] = st.heap[v.addr]
        return v

    params = {"Fisher_diag": arr("Fisher_diag", T.float, NPAR), "theta_ML": arr("theta_ML", T.real, NPAR), "Nsteps": mk_nsteps,
              "params": arr("params", T.real, MAXP), "deriv": arr("deriv", T.float, z3.Int("nderiv")),
              "negloglike": T.real, "nparam": lambda e, s: VInt(NPAR), "max_param": lambda e, s: VInt(MAXP),
              "fop": T.fn}

    def opaque(eng, st, fn, args, kwargs, node):
        o = st.heap[args[0].addr]
        k = z3.Int("k!nllf")
        g = o.get
        A = M.named_array(eng, z3.Lambda([k], as_float(g(k)).val), "TH")
        st.ghost.setdefault("fop_calls", []).append(A)
        if finite_like:
            return VFloat(NLLF_v(A))
        return VFloat(NLLF_v(A), nan=z3.BoolVal(False), inf=z3.Not(NLLF_fin(A)), pos=True)

    def setup(eng, st, args):
        eng.opaque_call = opaque
        eng._sum_terms = []
        st.ghost["theta0"] = st.heap[args["theta_ML"].addr]
        st.ghost["nll0"] = args["negloglike"]
        st.ghost["F0"] = st.heap[args["Fisher_diag"].addr]

    def requires(S, a):
        k = z3.Int("k!pre")
        F = S.seq(a["Fisher_diag"])
        return [("sizes", z3.And(NPAR >= 1, MAXP >= NPAR)),
                ("Fisher diagonal has no infinite entry here (filtered by the preceding code)",
                 z3.ForAll([k], z3.Implies(z3.And(0 <= k, k < NPAR), z3.Not(z3.And(z3.Not(F.get(k).nan), F.get(k).inf))))),
                ("Nsteps entries are finite and non-negative when the curvature is positive and finite",
                 z3.ForAll([k], z3.Implies(z3.And(0 <= k, k < NPAR, F.get(k).is_fin(), F.get(k).val > 0),
                                           z3.And(S.get(a["Nsteps"], k).is_fin(), S.get(a["Nsteps"], k).val >= 0)))),
                ("a kept parameter is non-zero (|theta| >= one precision step > 0)",
                 z3.ForAll([k], z3.Implies(z3.And(0 <= k, k < NPAR, S.get(a["Nsteps"], k).is_fin(), S.get(a["Nsteps"], k).val >= 1),
                                           S.get(a["theta_ML"], k).val != 0))),
                ("params starts as zeros", z3.ForAll([k], z3.Implies(z3.And(0 <= k, k < MAXP), a["params"] is not None and S.get(a["params"], k).val == 0)))]

    def ensures(S, a, res):
        eng, st = S.eng, S.st
        if not (isinstance(res, VTuple) and len(res.items) == 4):
            raise Unsupported("convert_params no longer returns a 4-tuple")
        pout, nll, deriv, codelen = res.items
        th0, F0, nll0 = st.ghost["theta0"], st.ghost["F0"], st.ghost["nll0"]
        k, j = z3.Int("k!e"), z3.Int("j!e")
        bad = z3.Exists([k], z3.And(0 <= k, k < NPAR, z3.Or(F0.get(k).nan, z3.And(z3.Not(F0.get(k).inf), F0.get(k).val <= 0))))
        cl = as_float(codelen)
        out = [("non-positive or NaN curvature gives a NaN code length (never finite)", z3.Implies(bad, cl.nan))]
        N0 = st.ghost["N0"]
        N = lambda q: N0.get(q)
        snap = lambda q: flt(N(q), VFloat(1))
        keep = lambda q: fle(VFloat(1), N(q))
        snapmask = M.mask_array(eng, st, snap)
        keepmask = M.mask_array(eng, st, keep)
        M.filter_axioms(eng, snapmask, NPAR)
        M.filter_axioms(eng, keepmask, NPAR)
        M.complement_lemma(eng, snapmask, keepmask, NPAR)
        nsnap = M.CNT(snapmask, NPAR)
        kk = NPAR - nsnap
        # reported parameters: theta with the snapped entries zeroed, padded with zeros
        po = S.seq(pout)
        want_p = lambda q: z3.If(z3.And(q < NPAR, keep(q)), th0.get(q).val, 0)
        good = z3.Not(bad)
        if finite_like:
            out.append(("reported parameters = theta with every parameter below one precision step set to zero, zero padded",
                        z3.Implies(good, z3.And(po.len == MAXP, z3.ForAll([k], z3.Implies(z3.And(0 <= k, k < MAXP), z3.And(
                            as_float(po.get(k)).is_fin(), as_float(po.get(k)).val == want_p(k))))))))
            # likelihood at the reported parameters
            q = z3.Int("q!e")
            PA = M.named_array(eng, z3.Lambda([q], want_p(q)), "POUT")
            for A in st.ghost.get("fop_calls", []):
                qq = z3.Int(fresh_name("q!ext"))
                eng.axioms.append(z3.Implies(z3.ForAll([qq], z3.Implies(z3.And(0 <= qq, qq < NPAR), z3.Select(A, qq) == z3.Select(PA, qq))),
                                             NLLF_v(A) == NLLF_v(PA)))
            out.append(("reported negative log-likelihood: re-evaluated at the reported parameters when something was snapped, unchanged otherwise",
                        z3.Implies(good, z3.And(as_float(nll).is_fin(),
                                                as_float(nll).val == z3.If(nsnap > 0, NLLF_v(PA), as_float(nll0).val)))))
            # code length
            fj = lambda jj: F0.get(M.IDX(keepmask, NPAR, jj))
            tj = lambda jj: th0.get(M.IDX(keepmask, NPAR, jj))
            absr = lambda t: z3.If(t < 0, -t, t)
            spec_arr = M.named_array(eng, z3.Lambda([j], LN(fj(j).val) / 2 + LN(absr(tj(j).val))), "SPEC")
            m = M.CNT(keepmask, NPAR)
            for (arr_, nn) in getattr(eng, "_sum_terms", []):
                qq = z3.Int(fresh_name("q!ext"))
                eng.axioms.append(z3.Implies(z3.ForAll([qq], z3.Implies(z3.And(0 <= qq, qq < m), z3.Select(arr_, qq) == z3.Select(spec_arr, qq))),
                                             M.SUMR(arr_, m) == M.SUMR(spec_arr, m)))
            want_cl = z3.If(kk == 0, 0, -z3.ToReal(kk) / 2 * LN(z3.RealVal(3)) + M.SUMR(spec_arr, m))
            # non-zero kept parameters: |theta| >= Delta > 0, so ln|theta| is finite
            out.append(("k counts the kept parameters", z3.Implies(good, kk == m)))
            out.append(("code length = -(k/2) ln 3 + sum over kept parameters of (1/2 ln I_ii + ln|theta_i|); 0 when nothing is kept",
                        z3.Implies(good, z3.And(cl.is_fin(), cl.val == want_cl))))
        return out

    c = Contract("convert_params", params, requires=requires, ensures=ensures, setup=setup, region=region,
                 raises=lambda S, a, e: z3.BoolVal(False))
    c.region_name = "snapping and code length"
    return c


# ---------------------------------------------------------------------- test_all_Fisher.main: one row per function (C07, C14)
def _main_rows_region(fnode):
    """allocation of the three per-rank tables + the body of the loop over this rank's functions"""
    pre, body = [], None
    for s in fnode.body:
        if isinstance(s, ast.Assign) and len(s.targets) == 1 and isinstance(s.targets[0], ast.Name) and s.targets[0].id in ("codelen", "params", "deriv"):
            pre.append(s)
        if isinstance(s, ast.For) and any(isinstance(n, ast.Call) and getattr(n.func, "id", None) == "convert_params" for n in ast.walk(s)):
            body = s.body
            break
    if len(pre) != 3 or body is None:
        return None
    return pre + body


def main_rows_contract(variant):
    """Row i of the per-rank tables after iteration i (variant: what the opaque calls do).
      ok          run_sympify and convert_params return: row i of params / deriv and entry i of negloglike / codelen are the four
                  results of ONE call of convert_params for function i; the Hessian row has max_param (max_param + 1) / 2 entries
      nameerror   run_sympify raises NameError (try_integration False): the row is zeros, code length 0
      exception   any other exception: likewise
    A NaN or infinite likelihood is skipped with a NaN code length.  Rows other than i are not touched."""
    from pyvc.models import PyRaise
    NP, M = z3.Int("NP"), z3.Int("max_param")
    CPp = z3.Function("CP.params", z3.IntSort(), z3.IntSort(), z3.RealSort())
    CPd = z3.Function("CP.deriv", z3.IntSort(), z3.IntSort(), z3.RealSort())
    CPn = z3.Function("CP.nll", z3.IntSort(), z3.RealSort())
    CPc = z3.Function("CP.codelen", z3.IntSort(), z3.RealSort())
    CPcn = z3.Function("CP.codelen.nan", z3.IntSort(), z3.BoolSort())

    def mk_like(eng, st):
        return st.alloc(HObj_("Likelihood", {}))

    def mk_nll(eng, st):
        v = eng.fresh(T.arr(T.float), "negloglike", st)
        st.heap[v.addr].len = NP
        st.ghost["nll0"] = st.heap[v.addr]
        return v

    def mk_pp(eng, st):
        v = eng.fresh(T.arr2(T.real), "params_proc", st)
        st.heap[v.addr].rows, st.heap[v.addr].cols = NP, M
        return v

    def mk_fl(eng, st):
        v = eng.fresh(T.list(T.label), "fcn_list_proc", st)
        st.heap[v.addr].len = NP
        return v

    def run_sympify_contract():
        def returns(eng, st, a):
            if variant == "nameerror":
                raise PyRaise("NameError")
            if variant == "exception":
                raise PyRaise("Exception")
            return VTuple([eng.fresh(T.label, "fcn", st), eng.fresh(T.fn, "eq", st), VConc_("integrated")])
        return Contract("Likelihood.run_sympify", {"self": T.fn, "fcn_i": T.label, "tmax": (T.int, VInt(5)), "try_integration": (T.bool, VFloat(0))},
                        returns=returns, raises=lambda S, a, e: z3.BoolVal(True))

    def convert_params_contract():
        def returns(eng, st, a):
            i = st.env["i"].t
            p = st.alloc(HSeq(M, lambda c: VFloat(CPp(i, c)), numpy=True, etype=T.real))
            d = st.alloc(HSeq(M * (M + 1) / 2, lambda c: VFloat(CPd(i, c)), numpy=True, etype=T.real))
            return VTuple([p, VFloat(CPn(i)), d, VFloat(CPc(i), nan=CPcn(i))])

        def requires(S, a):
            th = S.seq(a["theta_ML"])
            return [("theta_ML is the row of fitted parameters of function i (max_param entries)", th.len == M),
                    ("max_param passed on is the number of parameter columns", a["max_param"].t == M)]
        return Contract("convert_params", {"fcn_i": T.label, "eq": T.fn, "integrated": T.fn, "theta_ML": T.arr(T.real), "likelihood": T.fn, "negloglike": T.float,
                                           "max_param": (T.int, VInt(4)), "use_relative_dx": (T.bool, VFloat(0))}, requires=requires, returns=returns)

    def setup(eng, st, args):
        eng.contracts["Likelihood.run_sympify"] = run_sympify_contract()
        eng.contracts["convert_params"] = convert_params_contract()
        st.env["rank"] = VInt(z3.Int("rank"))
        st.env["max_param"] = VInt(M)
        eng.axioms.append((M * (M + 1)) % 2 == 0)         # lemma library: m (m + 1) is even (proved by induction)
        st.env["tmax"] = VInt(5)
        st.env["print_frequency"] = VInt(z3.Int("print_frequency"))
        st.env["try_integration"] = __import__("pyvc.values", fromlist=["VBool"]).VBool(False)

    def requires(S, a):
        return [("sizes", z3.And(NP >= 1, M >= 1, 0 <= a["i"].t, a["i"].t < NP, z3.Int("print_frequency") >= 1))]

    def ensures(S, a, res):
        st = S.st
        i = a["i"].t
        out = []
        for nm in ("params", "deriv", "codelen"):
            if nm not in st.env:
                return [("the three per-rank tables are allocated", z3.BoolVal(False))]
        P, D, C = st.heap[S.var("params").addr], st.heap[S.var("deriv").addr], st.heap[S.var("codelen").addr]
        NL = st.heap[a["negloglike"].addr]
        nll0 = st.ghost["nll0"]
        out.append(("the tables have one row per function of this rank; max_param parameter columns; max_param (max_param + 1) / 2 Hessian columns",
                    z3.And(P.rows == NP, P.cols == M, D.rows == NP, 2 * D.cols == M * (M + 1), C.len == NP)))
        r, c = z3.Int(fresh_name("r!sk")), z3.Int(fresh_name("c!sk"))
        other = z3.And(0 <= r, r < NP, r != i)
        out.append(("rows other than i are untouched (still zero) and their likelihood entries unchanged",
                    z3.Implies(z3.And(other, 0 <= c), z3.And(z3.Implies(c < M, as_float(P.get(r, c)).val == 0), z3.Implies(c < D.cols, as_float(D.get(r, c)).val == 0),
                                                           as_float(C.get(r)).val == 0, z3.Not(as_float(C.get(r)).nan), fsame(NL.get(r), nll0.get(r))))))
        bad = z3.Or(nll0.get(i).nan, nll0.get(i).inf)
        ci = as_float(C.get(i))
        out.append(("a NaN or infinite likelihood is skipped with a NaN code length", z3.Implies(bad, ci.nan)))
        cin = z3.And(0 <= c)
        if variant == "ok":
            out.append(("row i holds the four results of one call of convert_params for function i",
                        z3.Implies(z3.Not(bad), z3.And(z3.Implies(z3.And(cin, c < M), as_float(P.get(i, c)).val == CPp(i, c)),
                                                       z3.Implies(z3.And(cin, c < D.cols), as_float(D.get(i, c)).val == CPd(i, c)),
                                                       as_float(NL.get(i)).val == CPn(i), ci.nan == CPcn(i), z3.Implies(z3.Not(ci.nan), ci.val == CPc(i))))))
        else:
            out.append(("a function that cannot be evaluated gets a zero row and code length 0; its likelihood entry is kept",
                        z3.Implies(z3.Not(bad), z3.And(z3.Implies(z3.And(cin, c < M), as_float(P.get(i, c)).val == 0), z3.Implies(z3.And(cin, c < D.cols), as_float(D.get(i, c)).val == 0),
                                                       ci.is_fin(), ci.val == 0, fsame(NL.get(i), nll0.get(i))))))
        return out

    c = Contract("main", {"fcn_list_proc": mk_fl, "negloglike": mk_nll, "params_proc": mk_pp, "likelihood": mk_like, "i": T.int},
                 requires=requires, ensures=ensures, setup=setup, region=_main_rows_region, raises=lambda S, a, e: z3.BoolVal(False))
    c.region_name = "rows: one table row per function (%s)" % variant
    return c


from pyvc.values import HObj as HObj_, VConc as VConc_      # noqa: E402


# ------------------------------------------------------------ layout of the flattened Hessian: writer (C05, C07)
def _writer_loops(fnode):
    out = []
    for n in ast.walk(fnode):
        if isinstance(n, ast.For) and any(isinstance(b, ast.Assign) and isinstance(b.targets[0], ast.Subscript) and getattr(b.targets[0].value, "id", None) == "deriv"
                                          and isinstance(b.targets[0].slice, ast.Slice) for b in n.body):
            out.append(n)
    return sorted(out, key=lambda n: n.lineno)


def hessian_writer_contract(which=0):
    """The loop that flattens the upper triangle of the Hessian into `deriv` (which = 0: the first copy of the loop, from Hmat;
    1, 2: the copies after the step-size retry, from Hmat_array_f[mode_ind]):
        deriv[TRIST(max_param, r) + (c - r)] = H[r, c]   for 0 <= r <= c < nparam,    TRIST(M, r) = r M - (r - 1) r / 2,
    and entries outside these slots are not touched."""
    from pyvc.engine import LoopSpec
    from pyvc.lemmas import TRIST, trist_axioms
    from pyvc.values import H2D
    NPAR, M = z3.Int("nparam"), z3.Int("max_param")
    HF = z3.Function("Hess", z3.IntSort(), z3.IntSort(), z3.RealSort())

    def region(fnode):
        loops = _writer_loops(fnode)
        return [loops[which]] if which < len(loops) else None

    def mk_H(eng, st):
        return st.alloc(H2D(NPAR, NPAR, lambda r, c: VFloat(HF(r, c)), etype=T.real))

    def mk_Hlist(eng, st):
        h = mk_H(eng, st)
        return st.alloc(HSeq(z3.Int("nmat"), lambda k: h))

    def mk_deriv(eng, st):
        v = eng.fresh(T.arr(T.float), "deriv", st)
        st.heap[v.addr].len = M * (M + 1) / 2
        st.ghost["deriv0"] = st.heap[v.addr]
        return v

    def setup(eng, st, args):
        eng.axioms.extend(trist_axioms(M))
        eng.axioms.append((M * (M + 1)) % 2 == 0)
        st.env["nparam"], st.env["max_param"] = VInt(NPAR), VInt(M)

    def filled(S, upto):
        d = S.seq(S.var("deriv"))
        d0 = S.st.ghost["deriv0"]
        r, c, q = z3.Int("r!w"), z3.Int("c!w"), z3.Int("q!w")
        return z3.And(d.len == M * (M + 1) / 2,
                      z3.ForAll([r, c], z3.Implies(z3.And(0 <= r, r < upto, r <= c, c < NPAR), z3.And(as_float(d.get(TRIST(M, r) + c - r)).is_fin(),
                                                                                                   as_float(d.get(TRIST(M, r) + c - r)).val == HF(r, c)))),
                      z3.ForAll([q], z3.Implies(z3.And(TRIST(M, upto) <= q, q < d.len), fsame(d.get(q), d0.get(q)))))

    def inv(S, st):
        return [("rows 0..i-1 of the upper triangle are in their slots, later slots untouched", filled(S, S.i(S.var("__i"))))]

    def requires(S, a):
        return [("1 <= nparam <= max_param", z3.And(1 <= NPAR, NPAR <= M))] + ([("mode_ind selects a matrix", z3.And(0 <= a["mode_ind"].t, a["mode_ind"].t < z3.Int("nmat")))] if which else [])

    def ensures(S, a, res):
        return [("deriv[TRIST(max_param, r) + c - r] = H[r, c] for every r <= c < nparam (row-major upper triangle of a max_param x max_param matrix)", filled(S, NPAR))]

    params = {"deriv": mk_deriv}
    if which == 0:
        params["Hmat"] = mk_H
    else:
        params["Hmat_array_f"] = mk_Hlist
        params["mode_ind"] = T.int
    c = Contract("convert_params", params, requires=requires, ensures=ensures, setup=setup, region=region, raises=lambda S, a, e: z3.BoolVal(False))
    c.region_name = "Hessian layout writer #%d" % which
    c.loop_select = lambda node: LoopSpec(inv)
    return c


# ------------------------------------------------------------------ the retry guard of convert_params (C07, C04)
def _retry_guard_region(fnode):
    """The first `if` of convert_params whose test reads Fisher_diag and whose body recomputes the Hessian with other step sizes (it contains a loop over
    itertools.product(d_list, method_list)).  Only the TEST is the verified text: the region is `if <test>: __retry = True else: __retry = False` (body dropped)."""
    for s in fnode.body:
        if isinstance(s, ast.If) and "Fisher_diag" in ast.dump(s.test) and any(isinstance(n, ast.For) for n in ast.walk(s)) and \
                any(isinstance(n, ast.Call) and ast.unparse(n.func).endswith("Hessian") for n in ast.walk(s)):
            flag = lambda v: ast.Assign(targets=[ast.Name(id="__retry", ctx=ast.Store())], value=ast.Constant(value=v), lineno=s.lineno, col_offset=0)
            node = ast.If(test=s.test, body=[flag(True)], orelse=[flag(False)])
            ast.copy_location(node, s)
            ast.fix_missing_locations(node)
            return [node]
    return None


def retry_guard_contract():
    """The Hessian is recomputed with the other step sizes WHENEVER the first one is unusable: some diagonal entry is not positive, is NaN or is infinite.
    (A likelihood with a domain boundary next to the maximum gives NaN for every default step; without the retry the best function of a library loses its
    code length and drops out of the ranking: C04.)  The converse is not demanded."""
    NPAR = z3.Int("nparam")

    def mk_F(eng, st):
        v = eng.fresh(T.arr(T.float), "Fisher_diag", st)
        st.heap[v.addr].len = NPAR
        return v

    def mk_any(eng, st):
        return eng.fresh(T.arr(T.float), "Nsteps", st)

    def ensures(S, a, res):
        F = S.seq(a["Fisher_diag"])
        k = z3.Int(fresh_name("k!sk"))
        fk = as_float(F.get(k))
        unusable = z3.Or(fk.is_nan(), fk.is_pinf(), fk.is_ninf(), z3.And(fk.is_fin(), fk.val <= 0))
        r = S.st.env.get("__retry")
        if r is None:
            return [("the retry test was evaluated", z3.BoolVal(False))]
        return [("an entry of the first Hessian's diagonal that is not positive, NaN or infinite triggers the retry with the other step sizes",
                 z3.Implies(z3.And(0 <= k, k < NPAR, unusable), S.b(r)))]

    c = Contract("convert_params", {"Fisher_diag": mk_F, "Nsteps": mk_any, "nparam": lambda e, s: VInt(NPAR)},
                 requires=lambda S, a: [("nparam >= 1", NPAR >= 1)], ensures=ensures, region=_retry_guard_region, raises=lambda S, a, e: z3.BoolVal(False))
    c.region_name = "retry guard"
    c.live_ins = ("Fisher_diag",)
    return c


# ------------------------------------------------------------------ which Hessian goes into the Hessian file (C05, C07)
def hessian_source_obligations(fnode):
    """test_all_Fisher.convert_params writes the upper triangle of a Hessian into `deriv` (what match.main later reads as THE Fisher matrix of the unique function) in three
    places: from the first Hessian, and in the two retry branches from one of the re-computed ones.  Structural data-flow obligation per retry branch: the matrix written is
    the one whose diagonal became Fisher_diag (the curvature the unique function's own code length is computed from):
        Fisher_array is built from the matrices of a list L (`for mat in L`),  Fisher_diag = ...Fisher_array[IDX]...,  and the writer reads  L[IDX][i, i:]  -- same list, same index."""
    if fnode.name != "convert_params":
        return []
    out = []
    src_list = None
    for n in ast.walk(fnode):
        if isinstance(n, ast.Assign) and len(n.targets) == 1 and ast.unparse(n.targets[0]) == "Fisher_array":
            for c in ast.walk(n.value):
                if isinstance(c, ast.ListComp) and len(c.generators) == 1 and isinstance(c.generators[0].iter, ast.Name):
                    src_list = c.generators[0].iter.id
    if src_list is None:
        return []                   # the names this analysis is keyed on are not the code's: nothing known
    # blocks that assign Fisher_diag from Fisher_array[IDX] and then write deriv from <list>[IDX2][i, i:]
    for blk in ast.walk(fnode):
        body = getattr(blk, "body", None)
        if not isinstance(body, list):
            continue
        for bl in [body, getattr(blk, "orelse", [])]:
            idx = None
            for s in bl:
                if isinstance(s, ast.Assign) and ast.unparse(s.targets[0]) == "Fisher_diag":
                    for c in ast.walk(s.value):
                        if isinstance(c, ast.Subscript) and isinstance(c.value, ast.Name) and c.value.id == "Fisher_array":
                            idx = ast.unparse(c.slice)
                if idx is not None and isinstance(s, ast.For):
                    for w in ast.walk(s):
                        if isinstance(w, ast.Assign) and isinstance(w.targets[0], ast.Subscript) and ast.unparse(w.targets[0].value) == "deriv":
                            v = w.value
                            ok = False
                            what = ast.unparse(v)
                            if isinstance(v, ast.Subscript) and isinstance(v.value, ast.Subscript) and isinstance(v.value.value, ast.Name):
                                ok = v.value.value.id == src_list and ast.unparse(v.value.slice) == idx
                            out.append(("line %d: the Hessian written to the file is the one whose diagonal became Fisher_diag (`%s`; Fisher_array comes from `%s`, index `%s`)" % (
                                w.lineno, what, src_list, idx), ok, w.lineno))
    return out
