"""Sidecar contract for the snapping / code-length region of test_all_Fisher.convert_params (C07).

Region = from the second curvature test (`if (np.sum(Fisher_diag <= 0.) > 0.) or (np.sum(np.isnan(Fisher_diag)) > 0)` that
directly sets codelen = nan) to the end of the function.  Given there: Fisher_diag, theta_ML (length nparam), Nsteps as the
code computed it (|theta| / sqrt(12 / Fisher)), the likelihood `fop` as an uninterpreted function of the parameter vector."""
import ast
import z3
from pyvc.engine import Contract
from pyvc.values import (T, VInt, VFloat, VFn, VRef, VTuple, HSeq, Fn, Unsupported, fresh_name, LN, SQRT,
                         fadd, fsub, fmul, fdiv, flog, fsqrt, fabs, fsame, feq, fle, flt, as_float)
from pyvc import models as M

NLLF_v = z3.Function("NLLF.val", M.RealArr, z3.RealSort())
NLLF_fin = z3.Function("NLLF.fin", M.RealArr, z3.BoolSort())


def region(fnode):
    body = fnode.body
    for k, s in enumerate(body):
        if isinstance(s, ast.If) and len(s.body) == 2 and isinstance(s.body[0], ast.Assign) and \
                isinstance(s.body[0].targets[0], ast.Name) and s.body[0].targets[0].id == "codelen" and isinstance(s.body[1], ast.Return):
            src = ast.dump(s.test)
            if "Fisher_diag" in src and "isinf" not in src:
                return body[k:]
    return None


def nsteps_of(theta, F):
    """The code's own expression: abs(theta) / sqrt(12 / F)."""
    return fdiv(fabs(theta), fsqrt(fdiv(VFloat(12), F)))


def fisher_region_contract(finite_like=True):
    NPAR = z3.Int("nparam")
    MAXP = z3.Int("max_param")

    def arr(name, etype, n):
        def mk(eng, st):
            v = eng.fresh(T.arr(etype), name, st)
            st.heap[v.addr].len = n
            return v
        return mk

    def mk_nsteps(eng, st):
        # Nsteps = |theta| / sqrt(12 / Fisher) is computed just before the region (two lines, exercised by the bounded
        # stand-in); inside the region it is an array of finite non-negative numbers whenever the curvature is good
        v = eng.fresh(T.arr(T.float), "Nsteps", st)
        st.heap[v.addr].len = NPAR
        st.ghost["N0"] = st.heap[v.addr]
        return v

    params = {"Fisher_diag": arr("Fisher_diag", T.float, NPAR), "theta_ML": arr("theta_ML", T.real, NPAR), "Nsteps": mk_nsteps,
              "params": arr("params", T.real, MAXP), "deriv": arr("deriv", T.float, z3.Int("nderiv")),
              "negloglike": T.real, "nparam": lambda e, s: VInt(NPAR), "max_param": lambda e, s: VInt(MAXP),
              "fop": T.fn}

    def opaque(eng, st, fn, args, kwargs, node):
        o = st.heap[args[0].addr]
        k = z3.Int("k!nllf")
        g = o.get
        A = M.named_array(eng, z3.Lambda([k], as_float(g(k)).val), "TH")
        st.ghost.setdefault("fop_calls", []).append(A)
        if finite_like:
            return VFloat(NLLF_v(A))
        return VFloat(NLLF_v(A), nan=z3.BoolVal(False), inf=z3.Not(NLLF_fin(A)), pos=True)

    def setup(eng, st, args):
        eng.opaque_call = opaque
        eng._sum_terms = []
        st.ghost["theta0"] = st.heap[args["theta_ML"].addr]
        st.ghost["nll0"] = args["negloglike"]
        st.ghost["F0"] = st.heap[args["Fisher_diag"].addr]

    def requires(S, a):
        k = z3.Int("k!pre")
        F = S.seq(a["Fisher_diag"])
        return [("sizes", z3.And(NPAR >= 1, MAXP >= NPAR)),
                ("Fisher diagonal has no infinite entry here (filtered by the preceding code)",
                 z3.ForAll([k], z3.Implies(z3.And(0 <= k, k < NPAR), z3.Not(z3.And(z3.Not(F.get(k).nan), F.get(k).inf))))),
                ("Nsteps entries are finite and non-negative when the curvature is positive and finite",
                 z3.ForAll([k], z3.Implies(z3.And(0 <= k, k < NPAR, F.get(k).is_fin(), F.get(k).val > 0),
                                           z3.And(S.get(a["Nsteps"], k).is_fin(), S.get(a["Nsteps"], k).val >= 0)))),
                ("a kept parameter is non-zero (|theta| >= one precision step > 0)",
                 z3.ForAll([k], z3.Implies(z3.And(0 <= k, k < NPAR, S.get(a["Nsteps"], k).is_fin(), S.get(a["Nsteps"], k).val >= 1),
                                           S.get(a["theta_ML"], k).val != 0))),
                ("params starts as zeros", z3.ForAll([k], z3.Implies(z3.And(0 <= k, k < MAXP), a["params"] is not None and S.get(a["params"], k).val == 0)))]

    def ensures(S, a, res):
        eng, st = S.eng, S.st
        if not (isinstance(res, VTuple) and len(res.items) == 4):
            raise Unsupported("convert_params no longer returns a 4-tuple")
        pout, nll, deriv, codelen = res.items
        th0, F0, nll0 = st.ghost["theta0"], st.ghost["F0"], st.ghost["nll0"]
        k, j = z3.Int("k!e"), z3.Int("j!e")
        bad = z3.Exists([k], z3.And(0 <= k, k < NPAR, z3.Or(F0.get(k).nan, z3.And(z3.Not(F0.get(k).inf), F0.get(k).val <= 0))))
        cl = as_float(codelen)
        out = [("non-positive or NaN curvature gives a NaN code length (never finite)", z3.Implies(bad, cl.nan))]
        N0 = st.ghost["N0"]
        N = lambda q: N0.get(q)
        snap = lambda q: flt(N(q), VFloat(1))
        keep = lambda q: fle(VFloat(1), N(q))
        snapmask = M.mask_array(eng, st, snap)
        keepmask = M.mask_array(eng, st, keep)
        M.filter_axioms(eng, snapmask, NPAR)
        M.filter_axioms(eng, keepmask, NPAR)
        M.complement_lemma(eng, snapmask, keepmask, NPAR)
        nsnap = M.CNT(snapmask, NPAR)
        kk = NPAR - nsnap
        # reported parameters: theta with the snapped entries zeroed, padded with zeros
        po = S.seq(pout)
        want_p = lambda q: z3.If(z3.And(q < NPAR, keep(q)), th0.get(q).val, 0)
        good = z3.Not(bad)
        if finite_like:
            out.append(("reported parameters = theta with every parameter below one precision step set to zero, zero padded",
                        z3.Implies(good, z3.And(po.len == MAXP, z3.ForAll([k], z3.Implies(z3.And(0 <= k, k < MAXP), z3.And(
                            as_float(po.get(k)).is_fin(), as_float(po.get(k)).val == want_p(k))))))))
            # likelihood at the reported parameters
            q = z3.Int("q!e")
            PA = M.named_array(eng, z3.Lambda([q], want_p(q)), "POUT")
            for A in st.ghost.get("fop_calls", []):
                qq = z3.Int(fresh_name("q!ext"))
                eng.axioms.append(z3.Implies(z3.ForAll([qq], z3.Implies(z3.And(0 <= qq, qq < NPAR), z3.Select(A, qq) == z3.Select(PA, qq))),
                                             NLLF_v(A) == NLLF_v(PA)))
            out.append(("reported negative log-likelihood: re-evaluated at the reported parameters when something was snapped, unchanged otherwise",
                        z3.Implies(good, z3.And(as_float(nll).is_fin(),
                                                as_float(nll).val == z3.If(nsnap > 0, NLLF_v(PA), as_float(nll0).val)))))
            # code length
            fj = lambda jj: F0.get(M.IDX(keepmask, NPAR, jj))
            tj = lambda jj: th0.get(M.IDX(keepmask, NPAR, jj))
            absr = lambda t: z3.If(t < 0, -t, t)
            spec_arr = M.named_array(eng, z3.Lambda([j], LN(fj(j).val) / 2 + LN(absr(tj(j).val))), "SPEC")
            m = M.CNT(keepmask, NPAR)
            for (arr_, nn) in getattr(eng, "_sum_terms", []):
                qq = z3.Int(fresh_name("q!ext"))
                eng.axioms.append(z3.Implies(z3.ForAll([qq], z3.Implies(z3.And(0 <= qq, qq < m), z3.Select(arr_, qq) == z3.Select(spec_arr, qq))),
                                             M.SUMR(arr_, m) == M.SUMR(spec_arr, m)))
            want_cl = z3.If(kk == 0, 0, -z3.ToReal(kk) / 2 * LN(z3.RealVal(3)) + M.SUMR(spec_arr, m))
            # non-zero kept parameters: |theta| >= Delta > 0, so ln|theta| is finite
            out.append(("k counts the kept parameters", z3.Implies(good, kk == m)))
            out.append(("code length = -(k/2) ln 3 + sum over kept parameters of (1/2 ln I_ii + ln|theta_i|); 0 when nothing is kept",
                        z3.Implies(good, z3.And(cl.is_fin(), cl.val == want_cl))))
        return out

    c = Contract("convert_params", params, requires=requires, ensures=ensures, setup=setup, region=region,
                 raises=lambda S, a, e: z3.BoolVal(False))
    c.region_name = "snapping and code length"
    return c
