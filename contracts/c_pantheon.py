"""Sidecar contracts for PanthLikelihood.get_pred / clear_data (C19), esr/fitting/likelihood.py.

The model function is opaque: H2(x) > 0 is an uninterpreted positive function of the abscissa (the parameters are fixed during
one call); the antiderivative used by the `integrated` path is the uninterpreted AD(x).  Variants:

  cold        data_x = data_mask = None: the grid and the mask are built
  half        data_x cached, data_mask None (not reachable in the unchanged code; the code rebuilds both)
  warm        both cached and consistent with zp1 (class invariant established by the cold path for the same zp1)
  scalar      cold, and the model returns a Python/numpy scalar (constant H^2)
  integrated  analytic path: AD(zp1) - AD(1)
  alias       analytic path where the model returns its own argument (lambdify of the string 'x' does): zp1 must not be modified
"""
import z3
from pyvc.engine import Contract
from pyvc.values import (T, VFloat, VInt, VNone, VRef, VTuple, HObj, HSeq, Unsupported, fresh_name, fadd, fmul, fdiv, fsqrt, fsame, as_float, SQRT)
from pyvc import models as M
from pyvc import models_np2 as N2

H2 = z3.Function("H2", z3.RealSort(), z3.RealSort())
AD = z3.Function("AD", z3.RealSort(), z3.RealSort())
CONSTH2 = z3.Real("constH2")


def _mk_self(variant):
    def mk(eng, st):
        f = {"delta_z": VFloat(z3.Real("self.delta_z")), "min_nz": VInt(z3.Int("self.min_nz")), "mu_const": VFloat(z3.Real("self.mu_const"))}
        if variant in ("cold", "scalar", "integrated", "alias"):
            f["data_x"], f["data_mask"] = VNone(), VNone()
        elif variant == "half":
            f["data_x"], f["data_mask"] = eng.fresh(T.arr(T.real), "self.data_x", st), VNone()
        else:
            f["data_x"], f["data_mask"] = eng.fresh(T.arr(T.real), "self.data_x", st), eng.fresh(T.arr(T.int), "self.data_mask", st)
        return st.alloc(HObj("PanthLikelihood", f))
    return mk


def _opaque(variant):
    def call(eng, st, fn, args, kwargs, node):
        x = args[0]
        if variant in ("integrated", "alias"):
            if isinstance(x, (VInt, VFloat)):
                return VFloat(AD(as_float(x).val))
            if variant == "alias":
                return x                       # the identity antiderivative returns the very array it was given
            o = st.heap[x.addr]
            g = o.get
            return st.alloc(HSeq(o.len, lambda k: VFloat(AD(as_float(g(k)).val)), numpy=True, etype=T.real))
        if variant == "scalar":
            r = VFloat(CONSTH2)
            r.np_scalar = True
            return r
        o = st.heap[x.addr]
        g = o.get
        return st.alloc(HSeq(o.len, lambda k: VFloat(H2(as_float(g(k)).val)), numpy=True, etype=T.real))
    return call


def grid_ok(S, G, MK, Z, quant=True):
    """class invariant of the cache for the redshift array Z: strictly increasing grid starting at 1, mask[i] is the
    grid index of Z[i]."""
    j, j2, i = z3.Int("j!g"), z3.Int("j2!g"), z3.Int("i!g")
    return z3.And(G.len >= 1, as_float(G.get(z3.IntVal(0))).val == 1,
                  z3.ForAll([j, j2], z3.Implies(z3.And(0 <= j, j < j2, j2 < G.len), as_float(G.get(j)).val < as_float(G.get(j2)).val)),
                  MK.len == Z.len,
                  z3.ForAll([i], z3.Implies(z3.And(0 <= i, i < Z.len), z3.And(0 <= MK.get(i).t, MK.get(i).t < G.len,
                                                                             as_float(G.get(MK.get(i).t)).val == as_float(Z.get(i)).val))))


def get_pred_contract(variant):
    integ = variant in ("integrated", "alias")

    def setup(eng, st, args):
        N2.install(eng)
        eng.opaque_call = _opaque(variant)
        x = z3.Real("x!h2")
        eng.axioms.append(z3.ForAll([x], H2(x) > 0, patterns=[H2(x)]))
        eng.axioms.append(CONSTH2 > 0)
        if variant == "alias":
            eng.axioms.append(z3.ForAll([x], AD(x) == x, patterns=[AD(x)]))      # the antiderivative that returns its argument
        if integ:
            st.env["integrated"] = __import__("pyvc.values", fromlist=["VBool"]).VBool(True)
        # snapshot of the redshift array (frame condition)
        Z = st.heap[args["zp1"].addr]
        st.ghost["Z0"] = (Z.len, Z.get)

    def requires(S, a):
        Z = S.seq(a["zp1"])
        o = S.st.heap[a["self"].addr]
        k = z3.Int("k!rq")
        out = [("at least one redshift, all 1+z >= 1", z3.And(Z.len >= 1, z3.ForAll([k], z3.Implies(z3.And(0 <= k, k < Z.len), as_float(Z.get(k)).val >= 1)))),
               ("delta_z > 0 and at least one sample below the first redshift", z3.And(o.fields["delta_z"].val > 0, o.fields["min_nz"].t >= 1))]
        if variant == "warm":
            out.append(("the cached grid and mask belong to this redshift array (invariant established by the first call after clear_data)",
                        grid_ok(S, S.seq(o.fields["data_x"]), S.seq(o.fields["data_mask"]), Z)))
        if variant == "half":
            G = S.seq(o.fields["data_x"])
            out.append(("cached grid has entries", G.len >= 1))
        return out

    def ensures(S, a, res):
        eng, st = S.eng, S.st
        o = st.heap[a["self"].addr]
        n0, z0 = st.ghost["Z0"]
        Z = S.seq(a["zp1"])
        out = []
        i = z3.Int(fresh_name("i!sk"))      # Skolem constant: an arbitrary redshift index
        inr = z3.And(0 <= i, i < n0)
        out.append(("the redshift array handed in is not modified (frame)", z3.And(Z.len == n0, z3.Implies(inr, fsame(as_float(Z.get(i)), as_float(z0(i)))))))
        if not isinstance(res, VRef):
            return out + [("returns an array of distance moduli", z3.BoolVal(False))]
        R = S.seq(res)
        out.append(("one distance modulus per redshift", R.len == n0))
        mu_const = o.fields["mu_const"]
        zi = as_float(z0(i))
        if integ:
            dl = VFloat(AD(zi.val) - AD(z3.RealVal(1)))
            want = fadd(fmul(VFloat(5), N2.flog10(fmul(dl, zi))), mu_const)
            out.append(("integrated path: mu_i = 5 log10(zp1_i (F(zp1_i) - F(1))) + mu_const for the supplied antiderivative F",
                        z3.Implies(inr, fsame(as_float(R.get(i)), want))))
            out.append(("the analytic path leaves the cache alone", z3.And(isinstance(o.fields["data_x"], VNone), isinstance(o.fields["data_mask"], VNone))))
            return out
        gx, gm = o.fields["data_x"], o.fields["data_mask"]
        if not (isinstance(gx, VRef) and isinstance(gm, VRef)):
            return out + [("grid and mask are cached after the call", z3.BoolVal(False))]
        G, MK = S.seq(gx), S.seq(gm)
        j, j2 = z3.Int(fresh_name("j!sk")), z3.Int(fresh_name("j2!sk"))
        gv = lambda q: as_float(G.get(q)).val
        out.append(("the grid is non-empty and starts at exactly 1 (lower limit of the integral)", z3.And(G.len >= 1, gv(z3.IntVal(0)) == 1)))
        out.append(("the grid is strictly increasing", z3.Implies(z3.And(0 <= j, j < j2, j2 < G.len), gv(j) < gv(j2))))
        mi = MK.get(i).t
        out.append(("mask_i is the grid index of redshift i: the grid contains every redshift",
                    z3.And(MK.len == n0, z3.Implies(inr, z3.And(0 <= mi, mi < G.len, gv(mi) == zi.val)))))
        # the value: composite trapezoid sum of 1/sqrt(H2) over the grid from 1 up to zp1_i
        k = z3.Int("k!spec")
        if variant == "scalar":
            yspec = M.named_array(eng, z3.Lambda([k], 1 / SQRT(CONSTH2)), "SY")
        else:
            yspec = M.named_array(eng, z3.Lambda([k], 1 / SQRT(H2(gv(k)))), "SY")
        xspec = M.named_array(eng, z3.Lambda([k], gv(k)), "SX")
        out_l = []
        for (ya, xa, nn) in getattr(eng, "_trapz_terms", []):
            # the code's integrand / abscissa arrays are the specification's, entry by entry (Skolem index, then generalised);
            # extensionality of TRAPZ (A-lemma): arrays that agree on [0, n) have the same trapezoid sums
            q0 = z3.Int(fresh_name("q!sk"))
            same = lambda q: z3.And(z3.Select(ya, q) == z3.Select(yspec, q), z3.Select(xa, q) == z3.Select(xspec, q))
            eng.oblige(st, "lemma: the integrand handed to cumulative_trapezoid is 1/sqrt(H^2(grid)) and the abscissa is the grid",
                       z3.Implies(z3.And(0 <= q0, q0 < nn), same(q0)), "lemma", None)
            jj = z3.Int(fresh_name("j!ext"))
            st.assume(z3.ForAll([jj], z3.Implies(z3.And(0 <= jj, jj < nn), N2.TRAPZ(ya, xa, jj) == N2.TRAPZ(yspec, xspec, jj)), patterns=[N2.TRAPZ(ya, xa, jj)]))
        eng.oblige(st, "lemma: the mask entry is a non-negative grid index", z3.Implies(inr, z3.And(0 <= mi, mi < G.len)), "lemma", None)
        st.assume(z3.Implies(inr, z3.And(0 <= mi, mi < G.len)))
        ti = VFloat(N2.TRAPZ(yspec, xspec, mi))
        want = fadd(fmul(VFloat(5), N2.flog10(fmul(ti, zi))), mu_const)
        out.append(("mu_i = 5 log10(zp1_i * T_i) + mu_const, T_i the composite trapezoid sum of 1/sqrt(H^2) over the grid from 1 to zp1_i",
                    z3.Implies(inr, fsame(as_float(R.get(i)), want))))
        if variant == "warm":
            out.append(("a warm cache is re-used unchanged", z3.BoolVal(gx.addr == st.ghost.get("gx0")) if st.ghost.get("gx0") else z3.BoolVal(True)))
        return out

    return Contract("PanthLikelihood.get_pred", {"self": _mk_self(variant), "zp1": T.arr(T.real), "a": T.arr(T.real), "eq_numpy": T.fn,
                                                 "integrated": (T("conc", __import__("pyvc.values", fromlist=["VBool"]).VBool(False)),)},
                    requires=requires, ensures=ensures, setup=setup, raises=lambda S, a, e: z3.BoolVal(False))


def clear_data_contract():
    def mk(eng, st):
        return st.alloc(HObj("PanthLikelihood", {"data_x": eng.fresh(T.arr(T.real), "self.data_x", st), "data_mask": eng.fresh(T.arr(T.int), "self.data_mask", st)}))

    def ensures(S, a, res):
        o = S.st.heap[a["self"].addr]
        return [("after clear_data the grid is gone (the next call rebuilds it)", z3.BoolVal(isinstance(o.fields["data_x"], VNone))),
                ("after clear_data the mask is gone as well (grid and mask are only ever rebuilt together)", z3.BoolVal(isinstance(o.fields["data_mask"], VNone)))]
    return Contract("PanthLikelihood.clear_data", {"self": mk}, ensures=ensures, raises=lambda S, a, e: z3.BoolVal(False))


# ------------------------------------------------------------------ PanthLikelihood.run_sympify: the pair (expression, integrated) it hands back (C19)
def _rs_region(fnode):
    """the `if try_integration: ... else: ...` statement and the return"""
    import ast
    for k, s in enumerate(fnode.body):
        if isinstance(s, ast.If) and isinstance(s.test, ast.Name) and s.test.id == "try_integration":
            return fnode.body[k:]
    return None


def run_sympify_pair_contract(integrate_raises=False):
    """What get_pred integrates depends on the pair (eq, integrated): integrated=True means `eq` is the antiderivative of 1/sqrt(H^2) (get_pred takes differences of it),
    integrated=False means `eq` is H^2 itself (get_pred integrates 1/sqrt of it numerically).  Ensures: the pair returned is one of the two consistent ones -- the parsed
    function with False, or the result of sympy.integrate with True -- whatever sympy.integrate does (returns, returns an unevaluated Integral, raises).
    time_limit is used through its contract (E4 / E5 of pyvc/excedge.py, discharged in the same check): entering and leaving the block raises nothing of its own; a timeout
    fires while the body runs.  Timeout points between the last two statements of the body are outside C19's quantifier (see DESIGN 5.7)."""
    from pyvc.values import VFn, VBool, VLabel, Fn
    EQ0 = z3.Const("eq.parsed", Fn)
    EQ2 = z3.Const("eq.antiderivative", Fn)
    UNEVAL = z3.Bool("integrate.returns.unevaluated")
    RAISES = z3.Bool("integrate.raises")

    def m_integrate(eng, st, args, kwargs, node):
        if integrate_raises:
            raise M.PyRaise("NotImplementedError")          # variant: sympy gives up with an exception (any subclass of Exception)
        return VFn(EQ2)

    def m_has(eng, st, recv, args, kwargs, node):
        return VBool(UNEVAL)

    def setup(eng, st, args):
        eng.models["sympy.integrate"] = m_integrate
        eng.methods["has"] = m_has
        eng.opaque_call = lambda e, s, fn, a, k, n: VFn(z3.Const(fresh_name("sqrt_eq"), Fn))

    def ensures(S, a, res):
        if not (isinstance(res, VTuple) and len(res.items) == 3):
            return [("returns (string, expression, integrated)", z3.BoolVal(False))]
        eq, integ = res.items[1], res.items[2]
        if not isinstance(eq, VFn):
            return [("the expression returned is the parsed function or the antiderivative", z3.BoolVal(False))]
        b = S.b(integ)
        return [("integrated=True is paired with the antiderivative, integrated=False with the parsed function",
                 z3.Or(z3.And(b, eq.t == EQ2), z3.And(z3.Not(b), eq.t == EQ0))),
                ("an unevaluated integral, or an integration that raised, is never reported as integrated", z3.Implies(z3.Or(UNEVAL, z3.BoolVal(integrate_raises)), z3.Not(b))),
                ("without try_integration nothing is integrated", z3.Implies(z3.Not(S.b(a["try_integration"])), z3.And(z3.Not(b), eq.t == EQ0)))]

    c = Contract("PanthLikelihood.run_sympify", {"fcn_i": T.label, "eq": lambda e, s: VFn(EQ0), "tmax": T.int, "try_integration": T.bool},
                 ensures=ensures, setup=setup, region=_rs_region, raises=lambda S, a, e: z3.BoolVal(False),
                 globals_={"sqrt": lambda e, s: VFn(z3.Const("sympy_symbols.sqrt", Fn)), "x": lambda e, s: VFn(z3.Const("sympy_symbols.x", Fn))})
    c.region_name = "pair handed back (%s)" % ("sympy.integrate raises" if integrate_raises else "sympy.integrate returns")
    c.live_ins = ("eq",)
    return c
