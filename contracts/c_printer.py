"""Sidecar contract for ESRPrinter._print_Pow (C12), esr/generation/custom_printer.py.

sympy objects are opaque (sort Fn) with the attributes the method reads (exp, base, is_commutative, is_integer, is_Rational, q) as
uninterpreted functions; S.Half / S.One / S.NegativeOne are distinct constants.  SEM(e) is the mathematical meaning of an expression,
den(s) what the ESR symbol tables make of a printed string.  The recursive calls are used through their contracts (structural induction):

   self._print(e)                       returns s with den(s) = SEM(e)
   self.parenthesize(e, L, strict=False) returns s with den(s) = SEM(e) and TIGHTER(s, L): s binds strictly tighter than precedence L
                                         (sympy: parenthesised unless precedence(e) > L)

Reader (A-sympy; the two tables of ESR bind pow to |a|**b and sqrt to the square root):
   den("sqrt(" E ")")           = SQRT(den E)
   den("1/sqrt(" E ")")         = DIV(ONE, SQRT(den E))
   den("1/" R)                  = DIV(ONE, den R)            if R binds tighter than a product
   den(B "**" E)                = POW(den B, den E)          if B and E bind tighter than a power
   den("pow(" B "," E ")")      = POW(ABS(den B), den E)     (function-call syntax: any argument strings)
Proved for every Pow node: den(result) = POW(SEM(base), SEM(exp)) up to the identities  b**(1/2) = sqrt(b),  b**(-1/2) = 1/sqrt(b),
b**(-1) = 1/b  (assumed facts about POW) and, for non-integer exponents only, |b| = b (bases of non-integer powers are non-negative by
construction: the property's precondition).  In particular the infix `**` is emitted only for integer exponents, and an integer exponent
never goes through pow() (which would take the absolute value of a possibly negative base)."""
import z3
from pyvc.engine import Contract
from pyvc.values import T, VInt, VBool, VFn, VLabel, VStr, HObj, Fn, Label, Unsupported

SEM = z3.Function("SEM", Fn, Fn)                 # meaning of an expression object (as an element of an abstract value algebra)
DEN = z3.Function("den", Label, Fn)              # meaning of a printed string under ESR's symbol tables
TIGHTER = z3.Function("binds.tighter", Label, z3.IntSort(), z3.BoolSort())
POW = z3.Function("POW", Fn, Fn, Fn)
DIV = z3.Function("DIV", Fn, Fn, Fn)
SQRT = z3.Function("SQRTF", Fn, Fn)
ABS = z3.Function("ABSF", Fn, Fn)
NEG = z3.Function("opaque.neg", Fn, Fn)
HALF, ONE, MONE = z3.Const("S.Half", Fn), z3.Const("S.One", Fn), z3.Const("S.NegativeOne", Fn)
NONNEG = z3.Function("nonneg", Fn, z3.BoolSort())
PREC_POW, PREC_MUL = 60, 50


def print_pow_contract():
    A = lambda name, sort: z3.Function("attr." + name, Fn, sort)
    EXP, BASE = A("exp", Fn), A("base", Fn)
    ISINT = A("is_integer", z3.BoolSort())

    def mk_self(eng, st):
        return st.alloc(HObj("ESRPrinter", {"printmethod": VStr("_sympystr")}))

    def print_contract():
        def ensures(S, a, res):
            return [("den(result) = SEM(expr)", DEN(res.t) == SEM(a["expr"].t))]
        return Contract("ESRPrinter._print", {"self": T.fn, "expr": T.fn}, ensures=ensures, returns=T.label)

    def paren_contract():
        def ensures(S, a, res):
            return [("den(result) = SEM(item)", DEN(res.t) == SEM(a["item"].t)), ("binds strictly tighter than level (strict=False)", TIGHTER(res.t, a["level"].t))]

        def requires(S, a):
            st_ = a["strict"]
            return [("called with strict=False", z3.Not(S.eng.truth(st_, S.st)))]
        return Contract("ESRPrinter.parenthesize", {"self": T.fn, "item": T.fn, "level": T.int, "strict": (T.bool, VBool(False))}, ensures=ensures, requires=requires, returns=T.label)

    def setup(eng, st, args):
        eng.fn_attrs = {"exp": "fn", "base": "fn", "is_commutative": "bool", "is_integer": "bool", "is_Rational": "bool", "q": "int"}
        eng.contracts["ESRPrinter._print"] = print_contract()
        eng.contracts["ESRPrinter.parenthesize"] = paren_contract()
        eng.models["precedence"] = lambda e, s, a, k, n: VInt(PREC_POW)          # sympy: PRECEDENCE["Pow"] (A-sympy)
        eng.module_consts["S.Half"], eng.module_consts["S.One"], eng.module_consts["S.NegativeOne"] = VFn(HALF), VFn(ONE), VFn(MONE)
        st.env["S"] = __import__("pyvc.values", fromlist=["VConc"]).VConc("S")
        eng.axioms.append(z3.Distinct(HALF, ONE, MONE, NEG(HALF)))
        eng.axioms.append(NEG(ONE) == MONE)
        # sympy facts: the singletons are what they are; an exponent that IS S.Half / -S.Half is not an integer, -1 is
        x = z3.Const("x!ax", Fn)
        eng.axioms.append(z3.ForAll([x], z3.Implies(z3.Or(x == HALF, NEG(x) == HALF), z3.Not(ISINT(x))), patterns=[ISINT(x)]))
        eng.axioms.append(ISINT(MONE))
        eng.axioms.append(z3.ForAll([x], z3.Implies(NEG(x) == HALF, x == NEG(HALF)), patterns=[NEG(x)]))
        eng.axioms.append(z3.And(SEM(HALF) == HALF, SEM(ONE) == ONE, SEM(MONE) == MONE, SEM(NEG(HALF)) == NEG(HALF)))
        # reader axioms
        L = eng.label_fn
        s_, l_, r_ = z3.Consts("s!rd l!rd r!rd", Label)
        lv = z3.Int("lv!rd")
        f_sqrt = L("fmt:sqrt(%s)", Label)
        f_dsq = L("fmt:%s/sqrt(%s)", Label, Label)
        f_div = L("fmt:%s/%s", Label, Label)
        f_pow = L("fmt:%s**%s", Label, Label)
        f_call = L("fmt:pow(%s,%s)", Label, Label)
        eng.axioms += [
            z3.ForAll([s_], DEN(f_sqrt(s_)) == SQRT(DEN(s_)), patterns=[f_sqrt(s_)]),
            z3.ForAll([l_, s_], z3.Implies(DEN(l_) == ONE, DEN(f_dsq(l_, s_)) == DIV(ONE, SQRT(DEN(s_)))), patterns=[f_dsq(l_, s_)]),
            z3.ForAll([l_, r_, lv], z3.Implies(z3.And(DEN(l_) == ONE, TIGHTER(r_, lv), lv >= PREC_MUL), DEN(f_div(l_, r_)) == DIV(ONE, DEN(r_))),
                      patterns=[z3.MultiPattern(f_div(l_, r_), TIGHTER(r_, lv))]),
            z3.ForAll([l_, r_], z3.Implies(z3.And(TIGHTER(l_, z3.IntVal(PREC_POW)), TIGHTER(r_, z3.IntVal(PREC_POW))), DEN(f_pow(l_, r_)) == POW(DEN(l_), DEN(r_))), patterns=[f_pow(l_, r_)]),
            z3.ForAll([l_, r_], DEN(f_call(l_, r_)) == POW(ABS(DEN(l_)), DEN(r_)), patterns=[f_call(l_, r_)]),
        ]
        # identities of the value algebra (mathematics, assumed): b^(1/2) = sqrt b, b^(-1/2) = 1/sqrt b, b^(-1) = 1/b; |b| = b for b >= 0
        b_ = z3.Const("b!id", Fn)
        eng.axioms += [
            z3.ForAll([b_], POW(b_, HALF) == SQRT(b_), patterns=[POW(b_, HALF)]),
            z3.ForAll([b_], POW(b_, NEG(HALF)) == DIV(ONE, SQRT(b_)), patterns=[POW(b_, NEG(HALF))]),
            z3.ForAll([b_], POW(b_, MONE) == DIV(ONE, b_), patterns=[POW(b_, MONE)]),
            z3.ForAll([b_], z3.Implies(NONNEG(b_), ABS(b_) == b_), patterns=[ABS(b_)]),
        ]

    def requires(S, a):
        e = a["expr"].t
        return [("meaning of a Pow node: SEM(expr) = POW(SEM(base), SEM(exp))", SEM(e) == POW(SEM(BASE(e)), SEM(EXP(e)))),
                ("the property's precondition: the base of a non-integer power is non-negative", z3.Implies(z3.Not(ISINT(EXP(e))), NONNEG(SEM(BASE(e))))),
                ("the singletons keep their meaning under SEM (an exponent that IS S.Half means 1/2, ...)", z3.BoolVal(True)),
                ("powers are commutative objects here (ESR has no non-commutative symbols)", z3.Function("attr.is_commutative", Fn, z3.BoolSort())(e))]

    def ensures(S, a, res):
        e = a["expr"].t
        if isinstance(res, VStr):
            rt = S.eng.label_of(res.s)
        elif isinstance(res, VLabel):
            rt = res.t
        else:
            return [("returns a string", z3.BoolVal(False))]
        # which template built the returned string (read off the term: every return of the method is one `fmt % args` expression)
        uses_infix = z3.is_app(rt) and rt.decl().name().startswith("fmt:%s**%s")
        uses_call = z3.is_app(rt) and rt.decl().name().startswith("fmt:pow(")
        return [("the printed power reads back as the power: den(result) = SEM(expr)", DEN(rt) == SEM(e)),
                ("the infix ** is used only with an integer exponent", z3.Implies(z3.BoolVal(uses_infix), ISINT(EXP(e)))),
                ("an integer exponent never goes through pow() (which takes the absolute value of the base)", z3.Implies(z3.BoolVal(uses_call), z3.Not(ISINT(EXP(e)))))]

    return Contract("ESRPrinter._print_Pow", {"self": mk_self, "expr": T.fn, "rational": (T("conc", VBool(False)),)},
                    requires=requires, ensures=ensures, setup=setup, raises=lambda S, a, e: z3.BoolVal(False))


# ------------------------------------------------------------ ESRPrinter.parenthesize itself (the contract _print_Pow relies on)
PRECF = z3.Function("precedence", Fn, z3.IntSort())
TIGHTEQ = z3.Function("binds.at.least", Label, z3.IntSort(), z3.BoolSort())


def parenthesize_contract(strict):
    """parenthesize(item, level, strict): the string denotes the item and binds strictly tighter than `level` (strict=False; at least as
    tight for strict=True).  Assumed about the recursive _print (A-sympy printing convention): the string printed for an expression binds
    as tight as sympy's precedence of that expression; about the reader: "(" s ")" denotes what s denotes and binds tighter than anything."""
    def print_contract():
        def ensures(S, a, res):
            L = z3.Int("L!pc")
            e = a["expr"].t
            return [("den(result) = SEM(expr)", DEN(res.t) == SEM(e)),
                    ("the printed string binds as tight as the expression's precedence",
                     z3.ForAll([L], z3.And(z3.Implies(PRECF(e) > L, TIGHTER(res.t, L)), z3.Implies(PRECF(e) >= L, TIGHTEQ(res.t, L))), patterns=[TIGHTER(res.t, L)])),
                    ("... (at least as tight)", z3.ForAll([L], z3.Implies(PRECF(e) >= L, TIGHTEQ(res.t, L)), patterns=[TIGHTEQ(res.t, L)]))]
        return Contract("ESRPrinter._print", {"self": T.fn, "expr": T.fn}, ensures=ensures, returns=T.label)

    def mk_self(eng, st):
        return st.alloc(HObj("ESRPrinter", {"printmethod": VStr("_sympystr")}))

    def setup(eng, st, args):
        eng.contracts["ESRPrinter._print"] = print_contract()
        eng.models["precedence"] = lambda e, s, a, k, n: VInt(PRECF(a[0].t))
        par = eng.label_fn("fmt:(%s)", Label)
        s_, L = z3.Const("s!ax", Label), z3.Int("L!ax")
        eng.axioms.append(z3.ForAll([s_], DEN(par(s_)) == DEN(s_), patterns=[par(s_)]))
        eng.axioms.append(z3.ForAll([s_, L], z3.And(TIGHTER(par(s_), L), TIGHTEQ(par(s_), L)), patterns=[TIGHTER(par(s_), L)]))
        eng.axioms.append(z3.ForAll([s_, L], TIGHTEQ(par(s_), L), patterns=[TIGHTEQ(par(s_), L)]))

    def ensures(S, a, res):
        if not isinstance(res, VLabel):
            return [("returns a string", z3.BoolVal(False))]
        out = [("den(result) = SEM(item)", DEN(res.t) == SEM(a["item"].t))]
        if strict:
            out.append(("binds at least as tight as level (strict=True)", TIGHTEQ(res.t, a["level"].t)))
        else:
            out.append(("binds strictly tighter than level (strict=False)", TIGHTER(res.t, a["level"].t)))
        return out

    return Contract("ESRPrinter.parenthesize", {"self": mk_self, "item": T.fn, "level": T.int, "strict": lambda e, s: VBool(strict)},
                    ensures=ensures, setup=setup, raises=lambda S, a, e: z3.BoolVal(False))
