"""Sidecar contracts for esr/generation/generator.py."""
import z3
from pyvc.engine import Contract, LoopSpec
from pyvc.values import T, VInt, VFloat, VLabel, VRef, HSeq, Label, Unsupported, fresh_name, LN
from pyvc import models as M


def aifeyn_contract():
    """aifeyn_complexity(tree, param_list) = len(tree) * ln(d + h) + sum over the integer labels of ln|c'|
    d = number of distinct labels that are neither in param_list nor integers,
    h = 1 iff some label is in param_list or an integer, c' = c with 0 read as 1.
    Strings are abstract labels; `s.lstrip('-').isdigit()` is the predicate str.isint and int(s) the
    function int_of (A-str)."""

    def requires(S, a):
        return [("tree is non-empty", S.len(a["tree"]) >= 1)]

    def ensures(S, a, res):
        eng, st = S.eng, S.st
        tree, plist = S.seq(a["tree"]), a["param_list"]
        n = z3.simplify(tree.len)
        tg = tree.get
        if not isinstance(res, VFloat):
            return [("returns a number", z3.BoolVal(False))]
        inparam = lambda k: eng.contains(plist, tg(k), st, None)
        isint = lambda k: M.ISINT(tg(k).t)
        opmask = M.mask_array(eng, st, lambda k: z3.And(z3.Not(inparam(k)), z3.Not(isint(k))))
        intmask = M.mask_array(eng, st, lambda k: isint(k))
        M.filter_axioms(eng, opmask, n)
        M.filter_axioms(eng, intmask, n)
        la = M.label_base_array(eng, st, tree)
        M.ndist_axioms(eng, la, opmask, n)
        d = M.NDIST(la, opmask, n)
        h = z3.If(M.any_of(eng, n, lambda k: z3.Or(inparam(k), isint(k)), "haspi"), 1, 0)
        j = z3.Int("j!spec")
        c = lambda jj: M.INTOF(tg(M.IDX(intmask, n, jj)).t)
        cp = lambda jj: z3.If(c(jj) == 0, 1, c(jj))
        absr = lambda t: z3.If(z3.ToReal(t) < 0, -z3.ToReal(t), z3.ToReal(t))
        spec_arr = M.named_array(eng, z3.Lambda([j], LN(absr(cp(j)))), "SPEC")
        m = M.CNT(intmask, n)
        spec_sum = M.SUMR(spec_arr, m)
        for (arr, nn) in getattr(eng, "_sum_terms", []):
            q = z3.Int(fresh_name("q!ext"))
            eng.axioms.append(z3.Implies(z3.ForAll([q], z3.Implies(z3.And(0 <= q, q < m), z3.Select(arr, q) == z3.Select(spec_arr, q))),
                                         M.SUMR(arr, m) == spec_sum))
        want = z3.ToReal(n) * LN(z3.ToReal(d + h)) + spec_sum
        return [("the symbol count d + h is at least one", d + h >= 1),
                ("result = len(tree) * ln(d + h) + sum_j ln|c'_j| (finite)", z3.And(res.is_fin(), res.val == want))]

    def setup(eng, st, args):
        eng._sum_terms = []
        # ln of a positive integer >= 1 is finite: nothing to assume, LN is total on reals in the encoding

    return Contract("aifeyn_complexity", {"tree": T.list(T.label), "param_list": T.list(T.label)},
                    requires=requires, ensures=ensures, setup=setup, raises=lambda S, a, e: z3.BoolVal(False))


# ------------------------------------------------------------------------------ node_to_string (C02)
Expr = z3.DeclareSort("Expr")                                   # the function a tree / a parsed string denotes
LEAF = z3.Function("leaf", Label, Expr)
APP1 = z3.Function("app1", Label, Expr, Expr)
APP2 = z3.Function("app2", Label, Expr, Expr, Expr)
DEN = z3.Function("parse.den", Label, Expr)                      # what the parser makes of a string
WF = z3.Function("parse.wf", Label, z3.BoolSort())              # the string is a well-formed (sub)expression
ATOM = z3.Function("str.atom", Label, z3.BoolSort())            # leaf tokens: x, a<i>, numbers


def node_to_string_contract():
    """By structural induction (decreasing n - idx; children come after their parent): the string returned for node idx is a
    well-formed expression that the parser reads as the value of the subtree at idx.  The parser is specified by four
    composition rules (leaf; f(E); (E)op(E) for the four infix operators; f(E,E)) -- the assumption that sympy parses fully
    parenthesised text compositionally (A-sympy)."""
    from pyvc.values import HRec, VRecRef, VMaybeNone
    VALF = z3.Function("tree.val", z3.IntSort(), Expr)
    N = z3.Int("ntree")

    def mk_tree(eng, st):
        v = eng.fresh(T("recseq", "Node", (("left", T.opt(T.int)), ("right", T.opt(T.int)), ("type", T.int))), "tree", st)
        st.heap[v.addr].len = N
        return v

    def mk_labels(eng, st):
        v = eng.fresh(T.list(T.label), "labels", st)
        st.heap[v.addr].len = N
        return v

    def cat(eng, *parts):
        c = eng.label_fn("concat", Label, Label)
        t = parts[0]
        for p in parts[1:]:
            t = c(t, p)
        return t

    def parser_axioms(eng):
        f, E1, E2, op = z3.Consts("f!p E1!p E2!p op!p", Label)
        L = eng.label_of
        infix = z3.Or(op == L("*"), op == L("/"), op == L("-"), op == L("+"))
        a1 = cat(eng, f, L("("), E1, L(")"))
        a2 = cat(eng, L("("), E1, L(")"), op, L("("), E2, L(")"))
        a3 = cat(eng, f, L("("), E1, L(","), E2, L(")"))
        return [
            z3.ForAll([f], z3.Implies(ATOM(f), z3.And(WF(f), DEN(f) == LEAF(f))), patterns=[ATOM(f)]),
            z3.ForAll([f, E1], z3.Implies(WF(E1), z3.And(WF(a1), DEN(a1) == APP1(f, DEN(E1)))), patterns=[a1]),
            z3.ForAll([op, E1, E2], z3.Implies(z3.And(infix, WF(E1), WF(E2)), z3.And(WF(a2), DEN(a2) == APP2(op, DEN(E1), DEN(E2)))), patterns=[a2]),
            z3.ForAll([f, E1, E2], z3.Implies(z3.And(WF(E1), WF(E2)), z3.And(WF(a3), DEN(a3) == APP2(f, DEN(E1), DEN(E2)))), patterns=[a3]),
        ]

    def requires(S, a):
        eng, st = S.eng, S.st
        tr = st.heap[a["tree"].addr]
        lab = S.seq(a["labels"])
        ty, le, ri = tr.fields["type"], tr.fields["left"], tr.fields["right"]
        k = z3.Int("k!wf")
        notnone = z3.BoolVal(True)
        if isinstance(a["idx"], VMaybeNone):
            notnone, idx = z3.Not(a["idx"].isnone), a["idx"].val.t
        else:
            idx = a["idx"].t
        wf = z3.ForAll([k], z3.Implies(z3.And(0 <= k, k < N), z3.And(
            z3.Or(ty(k).t == 0, ty(k).t == 1, ty(k).t == 2),
            z3.Implies(ty(k).t >= 1, z3.And(z3.Not(le(k).isnone), k < le(k).val.t, le(k).val.t < N)),
            z3.Implies(ty(k).t == 2, z3.And(z3.Not(ri(k).isnone), k < ri(k).val.t, ri(k).val.t < N)),
            z3.Implies(ty(k).t == 0, ATOM(lab.get(k).t)))))
        val = z3.ForAll([k], z3.Implies(z3.And(0 <= k, k < N), z3.And(
            z3.Implies(ty(k).t == 0, VALF(k) == LEAF(lab.get(k).t)),
            z3.Implies(ty(k).t == 1, VALF(k) == APP1(lab.get(k).t, VALF(le(k).val.t))),
            z3.Implies(ty(k).t == 2, VALF(k) == APP2(lab.get(k).t, VALF(le(k).val.t), VALF(ri(k).val.t))))), patterns=[VALF(k)])
        return [("idx is a node index: not None and 0 <= idx < n", z3.And(notnone, 0 <= idx, idx < N)),
                ("the tree is a prefix tree: arities 0/1/2, children present and after their parent, leaves carry atoms", wf),
                ("tree.val is the value of the subtree (definition)", val)]

    def ensures(S, a, res):
        from pyvc.values import VStr
        if isinstance(res, VStr):
            rt = S.eng.label_of(res.s)
        elif isinstance(res, VLabel):
            rt = res.t
        else:
            return [("returns a string", z3.BoolVal(False))]
        return [("the returned string is well formed", WF(rt)), ("the parser reads it as the value of the subtree at idx", DEN(rt) == VALF(a["idx"].val.t if isinstance(a["idx"], VMaybeNone) else a["idx"].t))]

    def setup(eng, st, args):
        eng.axioms.extend(parser_axioms(eng))
        eng.contracts["node_to_string"] = c

    def returns(eng, st, a):
        return VLabel(z3.Const(fresh_name("substr"), Label))

    c = Contract("node_to_string", {"idx": T.int, "tree": mk_tree, "labels": mk_labels}, requires=requires, ensures=ensures, setup=setup,
                 returns=returns, raises=lambda S, a, e: z3.BoolVal(False))
    c.decreases = lambda S, a: N - (a["idx"].t if not isinstance(a["idx"], VMaybeNone) else a["idx"].val.t)
    return c
