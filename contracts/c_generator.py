"""Sidecar contracts for esr/generation/generator.py."""
import z3
from pyvc.engine import Contract, LoopSpec
from pyvc.values import T, VInt, VFloat, VLabel, VRef, HSeq, Label, Unsupported, fresh_name, LN
from pyvc import models as M


def aifeyn_contract():
    """aifeyn_complexity(tree, param_list) = len(tree) * ln(d + h) + sum over the integer labels of ln|c'|
    d = number of distinct labels that are neither in param_list nor integers,
    h = 1 iff some label is in param_list or an integer, c' = c with 0 read as 1.
    Strings are abstract labels; `s.lstrip('-').isdigit()` is the predicate str.isint and int(s) the
    function int_of (A-str)."""

    def requires(S, a):
        return [("tree is non-empty", S.len(a["tree"]) >= 1)]

    def ensures(S, a, res):
        eng, st = S.eng, S.st
        tree, plist = S.seq(a["tree"]), a["param_list"]
        n = z3.simplify(tree.len)
        tg = tree.get
        if not isinstance(res, VFloat):
            return [("returns a number", z3.BoolVal(False))]
        inparam = lambda k: eng.contains(plist, tg(k), st, None)
        isint = lambda k: M.ISINT(tg(k).t)
        opmask = M.mask_array(eng, st, lambda k: z3.And(z3.Not(inparam(k)), z3.Not(isint(k))))
        intmask = M.mask_array(eng, st, lambda k: isint(k))
        M.filter_axioms(eng, opmask, n)
        M.filter_axioms(eng, intmask, n)
        la = M.label_base_array(eng, st, tree)
        M.ndist_axioms(eng, la, opmask, n)
        d = M.NDIST(la, opmask, n)
        h = z3.If(M.any_of(eng, n, lambda k: z3.Or(inparam(k), isint(k)), "haspi"), 1, 0)
        j = z3.Int("j!spec")
        c = lambda jj: M.INTOF(tg(M.IDX(intmask, n, jj)).t)
        cp = lambda jj: z3.If(c(jj) == 0, 1, c(jj))
        absr = lambda t: z3.If(z3.ToReal(t) < 0, -z3.ToReal(t), z3.ToReal(t))
        spec_arr = M.named_array(eng, z3.Lambda([j], LN(absr(cp(j)))), "SPEC")
        m = M.CNT(intmask, n)
        spec_sum = M.SUMR(spec_arr, m)
        for (arr, nn) in getattr(eng, "_sum_terms", []):
            q = z3.Int(fresh_name("q!ext"))
            eng.axioms.append(z3.Implies(z3.ForAll([q], z3.Implies(z3.And(0 <= q, q < m), z3.Select(arr, q) == z3.Select(spec_arr, q))),
                                         M.SUMR(arr, m) == spec_sum))
        want = z3.ToReal(n) * LN(z3.ToReal(d + h)) + spec_sum
        return [("the symbol count d + h is at least one", d + h >= 1),
                ("result = len(tree) * ln(d + h) + sum_j ln|c'_j| (finite)", z3.And(res.is_fin(), res.val == want))]

    def setup(eng, st, args):
        eng._sum_terms = []
        # ln of a positive integer >= 1 is finite: nothing to assume, LN is total on reals in the encoding

    return Contract("aifeyn_complexity", {"tree": T.list(T.label), "param_list": T.list(T.label)},
                    requires=requires, ensures=ensures, setup=setup, raises=lambda S, a, e: z3.BoolVal(False))
