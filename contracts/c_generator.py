"""Sidecar contracts for esr/generation/generator.py."""
import z3
from pyvc.engine import Contract, LoopSpec
from pyvc.values import T, VInt, VFloat, VLabel, VRef, VConc, VNone, HSeq, Label, Unsupported, fresh_name, LN
from pyvc import models as M


def aifeyn_contract():
    """aifeyn_complexity(tree, param_list) = len(tree) * ln(d + h) + sum over the integer labels of ln|c'|
    d = number of distinct labels that are neither in param_list nor integers,
    h = 1 iff some label is in param_list or an integer, c' = c with 0 read as 1.
    Strings are abstract labels; `s.lstrip('-').isdigit()` is the predicate str.isint and int(s) the
    function int_of (A-str)."""

    def requires(S, a):
        return [("tree is non-empty", S.len(a["tree"]) >= 1)]

    def ensures(S, a, res):
        eng, st = S.eng, S.st
        tree, plist = S.seq(a["tree"]), a["param_list"]
        n = z3.simplify(tree.len)
        tg = tree.get
        if not isinstance(res, VFloat):
            return [("returns a number", z3.BoolVal(False))]
        inparam = lambda k: eng.contains(plist, tg(k), st, None)
        isint = lambda k: M.ISINT(tg(k).t)
        opmask = M.mask_array(eng, st, lambda k: z3.And(z3.Not(inparam(k)), z3.Not(isint(k))))
        intmask = M.mask_array(eng, st, lambda k: isint(k))
        M.filter_axioms(eng, opmask, n)
        M.filter_axioms(eng, intmask, n)
        la = M.label_base_array(eng, st, tree)
        M.ndist_axioms(eng, la, opmask, n)
        d = M.NDIST(la, opmask, n)
        h = z3.If(M.any_of(eng, n, lambda k: z3.Or(inparam(k), isint(k)), "haspi"), 1, 0)
        j = z3.Int("j!spec")
        c = lambda jj: M.INTOF(tg(M.IDX(intmask, n, jj)).t)
        cp = lambda jj: z3.If(c(jj) == 0, 1, c(jj))
        absr = lambda t: z3.If(z3.ToReal(t) < 0, -z3.ToReal(t), z3.ToReal(t))
        spec_arr = M.named_array(eng, z3.Lambda([j], LN(absr(cp(j)))), "SPEC")
        m = M.CNT(intmask, n)
        spec_sum = M.SUMR(spec_arr, m)
        for (arr, nn) in getattr(eng, "_sum_terms", []):
            q = z3.Int(fresh_name("q!ext"))
            eng.axioms.append(z3.Implies(z3.ForAll([q], z3.Implies(z3.And(0 <= q, q < m), z3.Select(arr, q) == z3.Select(spec_arr, q))),
                                         M.SUMR(arr, m) == spec_sum))
        want = z3.ToReal(n) * LN(z3.ToReal(d + h)) + spec_sum
        return [("the symbol count d + h is at least one", d + h >= 1),
                ("result = len(tree) * ln(d + h) + sum_j ln|c'_j| (finite)", z3.And(res.is_fin(), res.val == want))]

    def setup(eng, st, args):
        eng._sum_terms = []
        # ln of a positive integer >= 1 is finite: nothing to assume, LN is total on reals in the encoding

    return Contract("aifeyn_complexity", {"tree": T.list(T.label), "param_list": T.list(T.label)},
                    requires=requires, ensures=ensures, setup=setup, raises=lambda S, a, e: z3.BoolVal(False))


# ------------------------------------------------------------------------------ node_to_string (C02)
Expr = z3.DeclareSort("Expr")                                   # the function a tree / a parsed string denotes
LEAF = z3.Function("leaf", Label, Expr)
APP1 = z3.Function("app1", Label, Expr, Expr)
APP2 = z3.Function("app2", Label, Expr, Expr, Expr)
DEN = z3.Function("parse.den", Label, Expr)                      # what the parser makes of a string
WF = z3.Function("parse.wf", Label, z3.BoolSort())              # the string is a well-formed (sub)expression
ATOM = z3.Function("str.atom", Label, z3.BoolSort())            # leaf tokens: x, a<i>, numbers


def node_to_string_contract():
    """By structural induction (decreasing n - idx; children come after their parent): the string returned for node idx is a
    well-formed expression that the parser reads as the value of the subtree at idx.  The parser is specified by four
    composition rules (leaf; f(E); (E)op(E) for the four infix operators; f(E,E)) -- the assumption that sympy parses fully
    parenthesised text compositionally (A-sympy)."""
    from pyvc.values import HRec, VRecRef, VMaybeNone
    VALF = z3.Function("tree.val", z3.IntSort(), Expr)
    N = z3.Int("ntree")

    def mk_tree(eng, st):
        v = eng.fresh(T("recseq", "Node", (("left", T.opt(T.int)), ("right", T.opt(T.int)), ("type", T.int))), "tree", st)
        st.heap[v.addr].len = N
        return v

    def mk_labels(eng, st):
        v = eng.fresh(T.list(T.label), "labels", st)
        st.heap[v.addr].len = N
        return v

    def cat(eng, *parts):
        c = eng.label_fn("concat", Label, Label)
        t = parts[0]
        for p in parts[1:]:
            t = c(t, p)
        return t

    def parser_axioms(eng):
        f, E1, E2, op = z3.Consts("f!p E1!p E2!p op!p", Label)
        L = eng.label_of
        infix = z3.Or(op == L("*"), op == L("/"), op == L("-"), op == L("+"))
        a1 = cat(eng, f, L("("), E1, L(")"))
        a2 = cat(eng, L("("), E1, L(")"), op, L("("), E2, L(")"))
        a3 = cat(eng, f, L("("), E1, L(","), E2, L(")"))
        return [
            z3.ForAll([f], z3.Implies(ATOM(f), z3.And(WF(f), DEN(f) == LEAF(f))), patterns=[ATOM(f)]),
            z3.ForAll([f, E1], z3.Implies(WF(E1), z3.And(WF(a1), DEN(a1) == APP1(f, DEN(E1)))), patterns=[a1]),
            z3.ForAll([op, E1, E2], z3.Implies(z3.And(infix, WF(E1), WF(E2)), z3.And(WF(a2), DEN(a2) == APP2(op, DEN(E1), DEN(E2)))), patterns=[a2]),
            z3.ForAll([f, E1, E2], z3.Implies(z3.And(WF(E1), WF(E2)), z3.And(WF(a3), DEN(a3) == APP2(f, DEN(E1), DEN(E2)))), patterns=[a3]),
        ]

    def requires(S, a):
        eng, st = S.eng, S.st
        tr = st.heap[a["tree"].addr]
        lab = S.seq(a["labels"])
        ty, le, ri = tr.fields["type"], tr.fields["left"], tr.fields["right"]
        k = z3.Int("k!wf")
        notnone = z3.BoolVal(True)
        if isinstance(a["idx"], VMaybeNone):
            notnone, idx = z3.Not(a["idx"].isnone), a["idx"].val.t
        else:
            idx = a["idx"].t
        wf = z3.ForAll([k], z3.Implies(z3.And(0 <= k, k < N), z3.And(
            z3.Or(ty(k).t == 0, ty(k).t == 1, ty(k).t == 2),
            z3.Implies(ty(k).t >= 1, z3.And(z3.Not(le(k).isnone), k < le(k).val.t, le(k).val.t < N)),
            z3.Implies(ty(k).t == 2, z3.And(z3.Not(ri(k).isnone), k < ri(k).val.t, ri(k).val.t < N)),
            z3.Implies(ty(k).t == 0, ATOM(lab.get(k).t)))))
        val = z3.ForAll([k], z3.Implies(z3.And(0 <= k, k < N), z3.And(
            z3.Implies(ty(k).t == 0, VALF(k) == LEAF(lab.get(k).t)),
            z3.Implies(ty(k).t == 1, VALF(k) == APP1(lab.get(k).t, VALF(le(k).val.t))),
            z3.Implies(ty(k).t == 2, VALF(k) == APP2(lab.get(k).t, VALF(le(k).val.t), VALF(ri(k).val.t))))), patterns=[VALF(k)])
        return [("idx is a node index: not None and 0 <= idx < n", z3.And(notnone, 0 <= idx, idx < N)),
                ("the tree is a prefix tree: arities 0/1/2, children present and after their parent, leaves carry atoms", wf),
                ("tree.val is the value of the subtree (definition)", val)]

    def ensures(S, a, res):
        from pyvc.values import VStr
        if isinstance(res, VStr):
            rt = S.eng.label_of(res.s)
        elif isinstance(res, VLabel):
            rt = res.t
        else:
            return [("returns a string", z3.BoolVal(False))]
        return [("the returned string is well formed", WF(rt)), ("the parser reads it as the value of the subtree at idx", DEN(rt) == VALF(a["idx"].val.t if isinstance(a["idx"], VMaybeNone) else a["idx"].t))]

    def setup(eng, st, args):
        eng.axioms.extend(parser_axioms(eng))
        eng.contracts["node_to_string"] = c

    def returns(eng, st, a):
        return VLabel(z3.Const(fresh_name("substr"), Label))

    c = Contract("node_to_string", {"idx": T.int, "tree": mk_tree, "labels": mk_labels}, requires=requires, ensures=ensures, setup=setup,
                 returns=returns, raises=lambda S, a, e: z3.BoolVal(False))
    c.decreases = lambda S, a: N - (a["idx"].t if not isinstance(a["idx"], VMaybeNone) else a["idx"].val.t)
    return c


# ----------------------------------------------------------------------------------- check_tree (C01)
import ast as _ast


def check_tree_contract():
    """success <=> valid(s), where valid is the Lukasiewicz condition on the arity string:
         NEED(0) = 1, NEED(k+1) = NEED(k) + s[k] - 1;  valid(s) <=> (forall k < n. NEED(k) >= 1) and NEED(n) = 0.
    On success the pointer structure makes every non-leaf node point to existing later nodes (left[k] = k+1, k < right[k] < n),
    which is the precondition of node_to_string.  Proof: outer invariant with a ghost stack of the binary nodes whose right
    child is missing (strictly increasing; exactly the open nodes; every later node has its parent at or above each open
    node), NEED(i+1) = s[i] + len(stack); inner invariant of the walk up the parent chain: j stays at or above the top of the
    stack, and the tree is unchanged until the walk succeeds."""
    from pyvc.values import VNone, VMaybeNone, HRec, VRecRef, ite
    from pyvc.engine import LoopSpec
    NEED = z3.Function("NEED", z3.IntSort(), z3.IntSort())
    NODE_T = T("recseq", "Node", (("left", T.opt(T.int)), ("parent", T.opt(T.int)), ("right", T.opt(T.int)), ("type", T.int)))
    GT = T("ghostfn", z3.IntSort(), z3.IntSort())

    def fld(S, name, k):
        o = S.st.heap[S.var("tree").addr]
        v = o.fields[name](k)
        if isinstance(v, VNone):
            return z3.BoolVal(True), z3.IntVal(0)
        if isinstance(v, VMaybeNone):
            return v.isnone, v.val.t
        return z3.BoolVal(False), v.t

    def sarr(S):
        return S.seq(S.eng.args0["s"])

    def pats(*terms):
        """explicit triggers: every non-constant application among the given terms is an alternative pattern"""
        out = []
        for t in terms:
            if z3.is_app(t) and t.num_args() > 0 and t.decl().kind() == z3.Z3_OP_UNINTERPRETED:
                out.append(t)
        return out

    def fterms(obj, name, kk):
        v = obj.fields[name](kk)
        if isinstance(v, VMaybeNone):
            return [v.isnone, v.val.t]
        if isinstance(v, VInt):
            return [v.t]
        return []

    def need_unfold(S, k):
        s = sarr(S)
        return NEED(k + 1) == NEED(k) + s.get(k).t - 1

    def requires(S, a):
        s = S.seq(a["s"])
        k = z3.Int("k!rq")
        return [("n >= 1", s.len >= 1),
                ("arities are 0, 1 or 2", z3.ForAll([k], z3.Implies(z3.And(0 <= k, k < s.len), z3.And(s.get(k).t >= 0, s.get(k).t <= 2)))),
                ("a string of more than one node does not start with a leaf; a single node is a leaf",
                 z3.And(z3.Implies(s.len > 1, s.get(z3.IntVal(0)).t != 0), z3.Implies(s.len == 1, s.get(z3.IntVal(0)).t == 0)))]

    def setup(eng, st, args):
        eng.axioms.append(NEED(z3.IntVal(0)) == 1)
        st.env["__stk"] = eng.mk_list([], st)
        st.heap[st.env["__stk"].addr] = HSeq(0, lambda k: VInt(0), etype=T.int)
        st.env["__pos"] = eng.fresh(GT, "POSN", st)

    def stack(S):
        return S.seq(S.var("__stk"))

    def common(S, st, i):
        """facts of the outer invariant for `i` placed nodes 0..i (node i's children still pending)"""
        s = sarr(S)
        n = s.len
        stk = stack(S)
        POS = S.var("__pos").obj
        k, q, q2 = z3.Int("k!ct"), z3.Int("q!ct"), z3.Int("q2!ct")
        ty = lambda kk: fld(S, "type", kk)[1]
        pn, pv = (lambda kk: fld(S, "parent", kk)[0]), (lambda kk: fld(S, "parent", kk)[1])
        ln, lv = (lambda kk: fld(S, "left", kk)[0]), (lambda kk: fld(S, "left", kk)[1])
        rn, rv = (lambda kk: fld(S, "right", kk)[0]), (lambda kk: fld(S, "right", kk)[1])
        inr = lambda kk: z3.And(0 <= kk, kk < n)
        top = stk.get(stk.len - 1).t
        return [
            ("tree has one node per arity and node types are the arities", z3.And(S.st.heap[S.var("tree").addr].len == n,
                                                                               z3.ForAll([k], z3.Implies(inr(k), ty(k) == s.get(k).t), patterns=pats(ty(k), s.get(k).t)))),
            ("parents: the root has none, placed nodes have an earlier parent, unplaced nodes none",
             z3.ForAll([k], z3.Implies(inr(k), z3.And(z3.Implies(z3.Or(k == 0, k > i), pn(k)),
                                                      z3.Implies(z3.And(1 <= k, k <= i), z3.And(z3.Not(pn(k)), 0 <= pv(k), pv(k) < k)))),
                       patterns=pats(pn(k), pv(k)))),
            ("left children: processed non-leaf nodes point to their successor, all others have none",
             z3.ForAll([k], z3.Implies(inr(k), z3.And(z3.Implies(z3.And(k < i, s.get(k).t >= 1), z3.And(z3.Not(ln(k)), lv(k) == k + 1)),
                                                      z3.Implies(z3.Or(k >= i, s.get(k).t == 0), ln(k)))), patterns=pats(ln(k), lv(k)))),
            ("right children exist only on processed binary nodes and point to a later placed node",
             z3.ForAll([k], z3.Implies(z3.And(inr(k), z3.Not(rn(k))), z3.And(s.get(k).t == 2, k < i, k < rv(k), rv(k) <= i)), patterns=pats(rn(k), rv(k)))),
            ("ghost stack: strictly increasing list of processed binary nodes without a right child",
             z3.And(stk.len >= 0,
                    z3.ForAll([q], z3.Implies(z3.And(0 <= q, q < stk.len), z3.And(0 <= stk.get(q).t, stk.get(q).t < i, s.get(stk.get(q).t).t == 2,
                                                                                     rn(stk.get(q).t), POS(stk.get(q).t) == q)), patterns=pats(stk.get(q).t)),
                    z3.ForAll([q, q2], z3.Implies(z3.And(0 <= q, q < q2, q2 < stk.len), stk.get(q).t < stk.get(q2).t),
                              patterns=[z3.MultiPattern(stk.get(q).t, stk.get(q2).t)] if pats(stk.get(q).t) else []))),
            ("every processed binary node without a right child is on the stack",
             z3.ForAll([k], z3.Implies(z3.And(0 <= k, k < i, s.get(k).t == 2, rn(k)), z3.And(0 <= POS(k), POS(k) < stk.len, stk.get(POS(k)).t == k)),
                       patterns=pats(rn(k), POS(k)))),
            ("every node placed after an open node has its parent at or above that open node",
             z3.ForAll([q, k], z3.Implies(z3.And(0 <= q, q < stk.len, stk.get(q).t < k, k <= i), pv(k) >= stk.get(q).t),
                       patterns=[z3.MultiPattern(stk.get(q).t, pv(k))] if (pats(stk.get(q).t) and pats(pv(k))) else [])),
            ("NEED(i+1) = s[i] + number of open nodes", NEED(i + 1) == s.get(i).t + stk.len),
            ("all prefixes so far are viable: NEED(k) >= 1 for k <= i", z3.ForAll([k], z3.Implies(z3.And(0 <= k, k <= i), NEED(k) >= 1))),
        ]

    def outer_inv(S, st):
        s = sarr(S)
        n = s.len
        i = S.i(S.var("__i"))
        st.assume(z3.Implies(z3.And(0 <= i, i < n), need_unfold(S, i)))
        st.assume(z3.Implies(z3.And(0 <= i, i + 1 < n), need_unfold(S, i + 1)))
        out = [("0 <= i <= n - 1", z3.And(0 <= i, i <= n - 1))]
        if "success" in st.env:
            out.append(("the previous iteration succeeded", z3.Implies(i >= 1, S.b(S.var("success")))))
        else:
            out.append(("no iteration has run yet", i == 0))
        return out + common(S, st, i)

    def inner_inv(S, st):
        """walk up the parent chain in iteration i (node i is a leaf): until it succeeds nothing changes"""
        s = sarr(S)
        n = s.len
        i = S.i(S.var("i"))
        pre = st.ghost.get("pre_while")
        if pre is None:
            raise Unsupported("the walk-up loop is not preceded by `j = tree[i].parent`")
        tree0, stk0 = pre
        succ = S.b(S.var("success"))
        jv = S.var("j")
        jn, jt = (jv.isnone, jv.val.t) if isinstance(jv, VMaybeNone) else ((z3.BoolVal(True), z3.IntVal(0)) if isinstance(jv, VNone) else (z3.BoolVal(False), jv.t))
        stk = stack(S)
        k, q = z3.Int("k!wi"), z3.Int("q!wi")
        top0 = stk0.get(stk0.len - 1).t
        cur = S.st.heap[S.var("tree").addr]

        def same(name, kk, upd=None):
            a_ = fld(S, name, kk)
            v0 = tree0.fields[name](kk)
            b_ = (z3.BoolVal(True), z3.IntVal(0)) if isinstance(v0, VNone) else ((v0.isnone, v0.val.t) if isinstance(v0, VMaybeNone) else (z3.BoolVal(False), v0.t))
            return z3.And(a_[0] == b_[0], z3.Implies(z3.Not(a_[0]), a_[1] == b_[1]))
        unchanged = z3.And(cur.len == tree0.len,
                           z3.ForAll([k], z3.Implies(z3.And(0 <= k, k < n), z3.And(same("type", k), same("parent", k), same("left", k), same("right", k))),
                                     patterns=pats(*(fterms(cur, "type", k) + fterms(cur, "parent", k) + fterms(cur, "left", k) + fterms(cur, "right", k)))),
                           stk.len == stk0.len, z3.ForAll([q], z3.Implies(z3.And(0 <= q, q < stk0.len), stk.get(q).t == stk0.get(q).t), patterns=pats(stk.get(q).t)))
        done = z3.And(cur.len == tree0.len, stk0.len >= 1,
                      z3.ForAll([k], z3.Implies(z3.And(0 <= k, k < n), z3.And(
                          same("type", k), same("left", k),
                          z3.If(k == i + 1, z3.And(z3.Not(fld(S, "parent", k)[0]), fld(S, "parent", k)[1] == top0), same("parent", k)),
                          z3.If(k == top0, z3.And(z3.Not(fld(S, "right", k)[0]), fld(S, "right", k)[1] == i + 1), same("right", k)))),
                                patterns=pats(*(fterms(cur, "type", k) + fterms(cur, "parent", k) + fterms(cur, "left", k) + fterms(cur, "right", k)))),
                      stk.len == stk0.len - 1, z3.ForAll([q], z3.Implies(z3.And(0 <= q, q < stk0.len - 1), stk.get(q).t == stk0.get(q).t), patterns=pats(stk.get(q).t)))
        return [("until the walk succeeds the tree and the stack are unchanged, and j is a node at or above the top open node",
                 z3.Implies(z3.Not(succ), z3.And(unchanged, z3.Not(jn), 0 <= jt, jt < i, z3.Implies(stk0.len >= 1, jt >= top0)))),
                ("when the walk has succeeded, exactly the top open node got node i+1 as its right child and was popped",
                 z3.Implies(succ, done))]

    def inner_dec(S, st):
        jv = S.var("j")
        succ = S.b(S.var("success"))
        jt = jv.val.t if isinstance(jv, VMaybeNone) else (jv.t if isinstance(jv, VInt) else z3.IntVal(0))
        return z3.If(succ, 0, jt + 1)

    def hook_j(S, st, node):
        # `j = tree[i].parent` directly before the walk: snapshot of the tree and the stack
        v = getattr(node, "value", None)
        first = isinstance(v, _ast.Attribute) and isinstance(v.value, _ast.Subscript) and isinstance(v.value.slice, _ast.Name) and v.value.slice.id == "i"
        if isinstance(node, ast_Assign) and "i" in st.env and first:
            st.ghost = dict(st.ghost)
            st.ghost["pre_while"] = (st.heap[S.var("tree").addr], st.heap[S.var("__stk").addr])

    def hook_left(S, st, node):
        # tree[i].left = i+1 : a binary node i becomes open -> push
        s = sarr(S)
        i = S.i(S.var("i"))
        stk = stack(S)
        L, g = stk.len, stk.get
        isbin = s.get(i).t == 2
        st.heap[S.var("__stk").addr] = HSeq(z3.If(isbin, L + 1, L), lambda k: ite(z3.And(isbin, k == L), VInt(i), g(k)), etype=T.int)
        POS = S.var("__pos").obj
        gg = VConc("ghostfn", lambda q: z3.If(z3.And(isbin, q == i), L, POS(q)))
        gg.gtype = GT
        st.env["__pos"] = gg

    def hook_right(S, st, node):
        # tree[j].right = i+1 : the top open node is closed -> pop
        stk = stack(S)
        L, g = stk.len, stk.get
        st.heap[S.var("__stk").addr] = HSeq(L - 1, g, etype=T.int)

    def ensures(S, a, res):
        from pyvc.values import VTuple
        if not (isinstance(res, VTuple) and len(res.items) == 3):
            raise Unsupported("check_tree no longer returns a triple")
        s = S.seq(a["s"])
        n = s.len
        succ = S.b(res.items[0])
        k = z3.Int("k!en")
        valid = z3.And(z3.ForAll([k], z3.Implies(z3.And(0 <= k, k < n), NEED(k) >= 1)), NEED(n) == 0)
        S.st.assume(z3.Implies(n == 1, need_unfold(S, z3.IntVal(0))))
        out = [("success => the arity string is valid (every proper prefix needs >= 1 more node, the whole string none)", z3.Implies(succ, valid)),
               ("the arity string is valid => success", z3.Implies(valid, succ))]
        tr = S.st.heap[res.items[2].addr]

        def f(name, kk):
            v = tr.fields[name](kk)
            if isinstance(v, VNone):
                return z3.BoolVal(True), z3.IntVal(0)
            if isinstance(v, VMaybeNone):
                return v.isnone, v.val.t
            return z3.BoolVal(False), v.t
        # failure: the prefix handed back excludes every string that starts with it (used by get_allowed_shapes to prune)
        pc_ = res.items[1]
        if isinstance(pc_, VRef):
            P = S.seq(pc_)
            m = P.len
            q = z3.Int("q!pc")
            out.append(("on failure part_considered is a prefix s[:m], 2 <= m <= n, and either it is the whole string or its first m-1 entries already complete a tree (NEED(m-1) = 0 with m-1 < n)",
                        z3.Implies(z3.And(z3.Not(succ), n > 1), z3.And(2 <= m, m <= n, z3.ForAll([q], z3.Implies(z3.And(0 <= q, q < m), P.get(q).t == s.get(q).t)),
                                                                      z3.Or(m == n, z3.And(NEED(m - 1) == 0, m - 1 < n))))))
        elif not isinstance(pc_, VNone):
            from pyvc.values import VMaybeNone as _VM
            if isinstance(pc_, _VM) and isinstance(pc_.val, VRef):
                P = S.seq(pc_.val)
                m = P.len
                q = z3.Int("q!pc")
                out.append(("on failure part_considered is a prefix s[:m], 2 <= m <= n, and either it is the whole string or its first m-1 entries already complete a tree (NEED(m-1) = 0 with m-1 < n)",
                            z3.Implies(z3.And(z3.Not(succ), n > 1), z3.And(z3.Not(pc_.isnone), 2 <= m, m <= n, z3.ForAll([q], z3.Implies(z3.And(0 <= q, q < m), P.get(q).t == s.get(q).t)),
                                                                          z3.Or(m == n, z3.And(NEED(m - 1) == 0, m - 1 < n))))))
        out.append(("on success every non-leaf node points to existing later nodes (left[k] = k+1, k < right[k] < n) and types are the arities",
                    z3.Implies(z3.And(succ, n > 1), z3.ForAll([k], z3.Implies(z3.And(0 <= k, k < n), z3.And(
                        f("type", k)[1] == s.get(k).t,
                        z3.Implies(s.get(k).t >= 1, z3.And(z3.Not(f("left", k)[0]), f("left", k)[1] == k + 1, k + 1 < n)),
                        z3.Implies(s.get(k).t == 2, z3.And(z3.Not(f("right", k)[0]), k < f("right", k)[1], f("right", k)[1] < n))))))))
        return out

    global ast_Assign
    ast_Assign = _ast.Assign
    lo = LoopSpec(outer_inv, havoc_types={"tree": NODE_T, "j": T.opt(T.int), "success": T.bool})
    lo.ghost = ["__stk", "__pos"]
    li = LoopSpec(inner_inv, havoc_types={"tree": NODE_T, "j": T.opt(T.int)}, decreases=inner_dec)
    li.ghost = ["__stk"]
    return Contract("check_tree", {"s": T.arr(T.int)}, requires=requires, ensures=ensures, setup=setup,
                    loops={0: lo, 1: li}, hooks={"j": hook_j, "tree[].left": hook_left, "tree[].right": hook_right},
                    raises=lambda S, a, e: z3.BoolVal(False))


# ------------------------------------------------------------- generate_equations: the file writers (C01, C08)
def writers_region(fnode):
    """The block of `with open(..., 'a')` statements inside the loop over shapes (selected by structure: the statements of the
    `if rank == 0:` inside the `for` that calls shape_to_functions which are `with` statements)."""
    for s in fnode.body:
        if isinstance(s, _ast.For) and any(isinstance(n, _ast.Call) and getattr(n.func, "id", None) == "shape_to_functions" for n in _ast.walk(s)):
            for b in s.body:
                if isinstance(b, _ast.If) and any(isinstance(w, _ast.With) for w in b.body):
                    return [w for w in b.body if isinstance(w, _ast.With)]
    return None


def writers_contract():
    """One physical line per tree in each of the four per-shape files: orig_trees / orig_aifeyn get len(all_tree) lines,
    extra_trees / extra_aifeyn get len(extra_tree) lines, in list order -- so that line i of the code-length file belongs to
    line i of the tree file (originals first, rewritten trees after: the two `cat` commands join them in the same order).
    The text of a tree is an abstract string s = str(t); pprint keeps it on one line iff len(repr(s)) <= width."""
    from pyvc.engine import LoopSpec
    from pyvc.models import STRLEN, STRNL, STRROW

    def mk_trees(name):
        def mk(eng, st):
            return eng.fresh(T.list(T.list(T.label)), name, st)
        return mk

    def setup(eng, st, args):
        eng.contracts["aifeyn_complexity"] = aifeyn_callsite_contract()
        # A-str (validated at run time on every generated library): the text of a label array / label list has at least the
        # two brackets, contains no backslash, double quote or control character except the line breaks numpy inserts, and
        # every line break is followed by at least four more characters (" 'x'")
        sid, k = z3.Ints("sid!ax k!ax")
        t = STRROW(sid, k)
        eng.axioms.append(z3.ForAll([sid, k], z3.And(STRLEN(t) >= 2, STRNL(t) >= 0, 4 * STRNL(t) <= STRLEN(t)), patterns=[t]))
        from pyvc.models import str_len
        str_len(eng, eng.label_of("\n"))

    def requires(S, a):
        out = []
        for nm in ("all_tree", "extra_tree"):
            o = S.seq(a[nm])
            k = z3.Int("k!rq")
            out.append(("every tree in %s has at least one node" % nm, z3.ForAll([k], z3.Implies(z3.And(0 <= k, k < o.len), S.seq(o.get(k)).len >= 1))))
        return out

    def inv(S, st):
        i = S.i(S.var("__i"))
        out = [("one line per tree written so far", S.var("__lines").t == i)]
        if "w" in st.env and "pp" in st.env:
            pp = st.heap[S.var("pp").addr]
            out.append(("the printer's width is the current w and at least 80", z3.And(S.var("w").t >= 80, S.eng.as_int(pp.fields["_width"]) == S.var("w").t)))
        return out

    def loop_select(node):
        ls = LoopSpec(inv, havoc_types={"s": T.label, "t": T.list(T.label), "tree": T.list(T.label), "pp": T("obj", "PrettyPrinter", (("_width", T.int),))})
        ls.ghost = ["__lines"]
        return ls

    def ensures(S, a, res):
        wr = S.st.ghost.get("written", ())
        nall, nex = S.seq(a["all_tree"]).len, S.seq(a["extra_tree"]).len
        want = {"orig_trees": nall, "extra_trees": nex, "orig_aifeyn": nall, "extra_aifeyn": nex}
        out = [("the four per-shape files are written", z3.BoolVal(len(wr) == 4))]
        seen = set()
        for path, mode, lines, lineno in wr:
            nm = None
            for cand in want:
                if cand in str(path.t if hasattr(path, "t") else getattr(path, "s", "")):
                    nm = cand
            if nm is None:
                out.append(("file written at line %d is one of the four per-shape files" % lineno, z3.BoolVal(False)))
                continue
            seen.add(nm)
            out.append(("%s_<n>.txt gets exactly one line per %s tree (appended)" % (nm, "original" if nm.startswith("orig") else "rewritten"),
                        z3.And(lines == want[nm], z3.BoolVal(mode == "a"))))
        out.append(("all four files are covered", z3.BoolVal(seen == set(want))))
        return out

    c = Contract("generate_equations", {"dirname": T.label, "compl": T.int, "all_tree": mk_trees("all_tree"), "extra_tree": mk_trees("extra_tree"),
                                        "param_list": T.list(T.label)},
                 requires=requires, ensures=ensures, setup=setup, region=writers_region, raises=lambda S, a, e: z3.BoolVal(False))
    c.region_name = "writers: one line per tree in the four per-shape files"
    c.loop_select = loop_select
    return c


def aifeyn_callsite_contract():
    """aifeyn_complexity as seen by its callers: requires a non-empty tree, returns a finite number (verified separately against
    the full formula by aifeyn_contract)."""
    def requires(S, a):
        return [("tree is non-empty", S.len(a["tree"]) >= 1)]

    def ensures(S, a, res):
        return [("finite", res.is_fin())]
    return Contract("aifeyn_complexity", {"tree": T.list(T.label), "param_list": T.list(T.label)}, requires=requires, ensures=ensures,
                    returns=T.real, raises=lambda S, a, e: z3.BoolVal(False))


# ------------------------------------------------------------ shape_to_functions: which rank rewrites which tree (C13, C01)
def _stf_split_region(fnode):
    """`i = utils.split_idx(...)` and the `if len(i) == 0: ... else: ...` that follows it."""
    for k, s in enumerate(fnode.body):
        if isinstance(s, _ast.Assign) and isinstance(s.value, _ast.Call) and getattr(s.value.func, "attr", None) == "split_idx":
            if k + 1 < len(fnode.body) and isinstance(fnode.body[k + 1], _ast.If):
                return [s, fnode.body[k + 1]]
    return None


def _stf_slice_test(fnode):
    """the test of the `if` that guards the call of find_additional_trees inside the loops"""
    for n in _ast.walk(fnode):
        if isinstance(n, _ast.If) and any(isinstance(c, _ast.Call) and getattr(c.func, "id", None) == "find_additional_trees" for b in n.body for c in _ast.walk(b)) \
                and not any(isinstance(c, (_ast.For, _ast.While)) and any(isinstance(x, _ast.If) for x in _ast.walk(c)) and False for c in n.body):
            if any(isinstance(x, _ast.Name) and x.id == "pos" for x in _ast.walk(n.test)):
                return n.test
    return None


def stf_slice_contract():
    """Rank r rewrites exactly the trees at positions lo(r) <= pos < lo(r+1) of the shape's enumeration (lo from the contract of
    split_idx): with the tiling lemmas every position is rewritten by exactly one rank, in rank order -- whatever the rank count,
    including ranks that own nothing."""
    from contracts.c_utils import split_idx_contract, lo
    R, P = z3.Int("rank"), z3.Int("size")
    N0, N1, N2 = z3.Ints("len_t0 len_t1 len_t2")

    def mk_list(n):
        def mk(eng, st):
            v = eng.fresh(T.list(T.label), "t", st)
            st.heap[v.addr].len = n
            return v
        return mk

    def setup(eng, st, args):
        eng.contracts["utils.split_idx"] = split_idx_contract()
        st.env["rank"], st.env["size"] = VInt(R), VInt(P)
        st.env["pos"] = VInt(z3.Int("pos"))
        st.ghost["fnode"] = eng.find_function("shape_to_functions")

    def requires(S, a):
        return [("0 <= rank < size", z3.And(0 <= R, R < P)), ("tuple lists", z3.And(N0 >= 0, N1 >= 0, N2 >= 0))]

    def ensures(S, a, res):
        test = _stf_slice_test(S.st.ghost["fnode"])
        if test is None:
            raise Unsupported("the slice test guarding find_additional_trees was not found")
        taken = S.eng.truth(S.eng.ev(test, S.st), S.st)
        pos = S.var("pos").t
        N = N0 * N1 * N2
        return [("a tree is rewritten by this rank iff its position lies in the rank's slice [lo(r), lo(r+1)) of 0..N-1",
                 z3.Implies(z3.And(0 <= pos, pos < N), taken == z3.And(lo(N, R, P) <= pos, pos < lo(N, R + 1, P))))]

    c = Contract("shape_to_functions", {"t0": mk_list(N0), "t1": mk_list(N1), "t2": mk_list(N2)},
                 requires=requires, ensures=ensures, setup=setup, region=_stf_split_region, raises=lambda S, a, e: z3.BoolVal(False))
    c.region_name = "slice: which rank rewrites which tree"
    return c


# ------------------------------------------------------------ shape_to_functions: parameter renumbering (C01)
def _stf_rename_region(fnode):
    """body of the first loop of shape_to_functions whose body stores an 'a%i' label into t0[i][...]"""
    for s in fnode.body:
        if isinstance(s, _ast.For):
            for n in _ast.walk(s):
                if isinstance(n, _ast.Assign) and isinstance(n.targets[0], _ast.Subscript) and isinstance(n.targets[0].value, _ast.Subscript) and \
                        isinstance(n.value, _ast.BinOp) and isinstance(n.value.op, _ast.Mod):
                    return s.body
    return None


def stf_rename_contract():
    """One nullary tuple t0[i] (a list `row` of labels): afterwards the k-th occurrence of 'a' (in order of position) is 'a<k>', k = 0, 1, ...,
    every other entry is unchanged and the length is the same -- parameters are numbered in order of appearance."""
    from pyvc.engine import LoopSpec
    from pyvc.models import CNT, IDX, RNK, mask_array, filter_axioms, len_alias
    NR = z3.Int("nrow")

    def mk_t0(eng, st):
        row = eng.fresh(T.list(T.label), "row", st)
        st.heap[row.addr].len = NR
        st.ghost["row"] = row
        st.ghost["row0"] = st.heap[row.addr].get
        return st.alloc(HSeq(z3.Int("len_t0"), lambda k: row, etype=T.list(T.label)))

    def amask(S):
        g0 = S.st.ghost["row0"]
        la = S.eng.label_of("a")
        ma = mask_array(S.eng, S.st, lambda k: g0(k).t == la)
        filter_axioms(S.eng, ma, NR)
        return ma

    def fmt(S, j):
        return S.eng.label_fn("fmt:a%i", z3.IntSort())(j)

    def state(S, upto):
        """row[p] = 'a<rank of p>' for the 'a' positions of rank < upto, the original entry elsewhere"""
        ma = amask(S)
        row = S.st.heap[S.st.ghost["row"].addr]
        g0 = S.st.ghost["row0"]
        p = z3.Int("p!rn")
        return z3.And(row.len == NR, z3.ForAll([p], z3.Implies(z3.And(0 <= p, p < NR), z3.If(
            z3.And(z3.Select(ma, p), RNK(ma, NR, p) < upto), row.get(p).t == fmt(S, RNK(ma, NR, p)), row.get(p).t == g0(p).t)),
            patterns=[row.get(p).t] if z3.is_app(row.get(p).t) and row.get(p).t.num_args() == 1 else []))

    def inv(S, st):
        j = S.i(S.var("__i"))
        ind = S.seq(S.var("indices"))
        ma = amask(S)
        q = z3.Int("q!rn")
        return [("the entries renamed so far are exactly the first j occurrences of 'a'", state(S, j)),
                ("indices lists the positions of 'a' in increasing order", z3.And(ind.len == CNT(ma, NR), z3.ForAll([q], z3.Implies(z3.And(0 <= q, q < ind.len), ind.get(q).t == IDX(ma, NR, q)))))]

    def after_havoc(eng, st, tag):
        # t0 is the same list of the same row objects; only the contents of the row may have changed
        t0 = st.env["t0"]
        rowref = st.ghost["row"]
        st.heap[t0.addr] = HSeq(z3.Int("len_t0"), lambda k: rowref, etype=T.list(T.label))
        nv = eng.fresh(T.list(T.label), "row!" + tag, st)
        st.heap[rowref.addr] = st.heap[nv.addr]

    def requires(S, a):
        return [("i is a tuple index", z3.And(0 <= a["i"].t, a["i"].t < z3.Int("len_t0"))), ("row length", NR >= 0)]

    def ensures(S, a, res):
        ma = amask(S)
        return [("the k-th 'a' of the tuple became 'a<k>' (numbered in order of appearance), everything else is unchanged", state(S, CNT(ma, NR)))]

    def setup(eng, st, args):
        pass

    ls = LoopSpec(inv)
    ls.after_havoc = after_havoc
    c = Contract("shape_to_functions", {"t0": mk_t0, "i": T.int}, requires=requires, ensures=ensures, setup=setup, region=_stf_rename_region,
                 raises=lambda S, a, e: z3.BoolVal(False))
    c.region_name = "rename: parameters numbered in order of appearance"
    c.loop_select = lambda node: ls
    return c


# ------------------------------------------------------------ shape_to_functions: assembling the label array of one tree (C01)
def _stf_labels_region(fnode):
    """The slice of shape_to_functions along the data flow of `labels`: the allocation of the label buffer, the three arity masks,
    the conversion of the three tuple lists to arrays, and -- from the body of the innermost loop -- the statements up to and
    including the store of the copy into all_tree.  (The statements in between are loop headers and assignments to other names;
    that none of them assigns one of the names used here is checked as an obligation.)"""
    names = {"labels", "m0", "m1", "m2", "t0", "t1", "t2"}
    pre, inner = [], None
    seen_check_tree = False
    for s in fnode.body:
        if isinstance(s, _ast.Assign) and isinstance(s.value, _ast.Call) and getattr(s.value.func, "id", None) == "check_tree":
            seen_check_tree = True
        if not seen_check_tree:
            continue
        if isinstance(s, _ast.Assign) and len(s.targets) == 1 and isinstance(s.targets[0], _ast.Name) and s.targets[0].id in names:
            pre.append(s)
        if isinstance(s, _ast.For):
            cur = s
            while True:
                nxt = [b for b in cur.body if isinstance(b, _ast.For)]
                if len(cur.body) == 1 and nxt:
                    cur = nxt[0]
                else:
                    break
            body = cur.body
            upto = None
            for k, b in enumerate(body):
                if any(isinstance(n, _ast.Subscript) and isinstance(n.ctx, _ast.Store) and getattr(n.value, "id", None) == "all_tree" for n in _ast.walk(b)):
                    upto = k
            if upto is not None and any(getattr(getattr(b, "targets", [None])[0], "value", None) is not None and getattr(b.targets[0].value, "id", None) == "labels"
                                        for b in body[:upto] if isinstance(b, _ast.Assign)):
                inner = body[:upto + 1]
                break
    if not pre or inner is None:
        return None
    # frame of the skipped statements: no other statement of the function (after check_tree) assigns one of the names of the slice
    region_ids = {id(n) for st_ in pre + inner for n in _ast.walk(st_)}
    started = False
    for s in fnode.body:
        if isinstance(s, _ast.Assign) and isinstance(s.value, _ast.Call) and getattr(s.value.func, "id", None) == "check_tree":
            started = True
        if not started:
            continue
        for n in _ast.walk(s):
            if id(n) in region_ids:
                continue
            if isinstance(n, _ast.Name) and isinstance(n.ctx, (_ast.Store, _ast.Del)) and n.id in names:
                return None
            if isinstance(n, (_ast.Subscript, _ast.Attribute)) and isinstance(n.ctx, _ast.Store):
                b = n
                while isinstance(b, (_ast.Subscript, _ast.Attribute)):
                    b = b.value
                if isinstance(b, _ast.Name) and b.id in names:
                    return None
    return pre + inner


def stf_labels_contract():
    """For loop indices (i, j, k): position p of the label array holds the label of p's arity class, taken in order:
         labels[p] = t_c[row_c][rank of p among the positions of arity c],  c = s[p],  row_0 = i, row_1 = j, row_2 = k
    so every position is filled, nullary/unary/binary labels sit exactly on the nodes of that arity, in order of appearance,
    nothing is truncated by the fixed-width buffer, and the array stored in all_tree[pos] is a copy with the same contents."""
    from pyvc.models import CNT, RNK, mask_array, filter_axioms, STRLEN, str_len, complement_lemma
    N = z3.Int("nnodes")
    L0, L1, L2 = z3.Ints("len_t0 len_t1 len_t2")

    def mk_s(eng, st):
        v = eng.fresh(T.arr(T.int), "s", st)
        st.heap[v.addr].len = N
        return v

    def mk_tl(name, n):
        def mk(eng, st):
            v = eng.fresh(T.list(T.list(T.label)), name, st)
            st.heap[v.addr].len = n
            return v
        return mk

    def mk_all_tree(eng, st):
        return st.alloc(HSeq(L0 * L1 * L2, lambda k: VNone()))

    def masks(S, a):
        sg = S.seq(a["s"]).get
        out = []
        for c in (0, 1, 2):
            ma = mask_array(S.eng, S.st, lambda k, c=c: sg(k).t == c)
            filter_axioms(S.eng, ma, N)
            out.append(ma)
        return out

    def requires(S, a):
        s = S.seq(a["s"])
        k, r, c = z3.Int("k!rq"), z3.Int("r!rq"), z3.Int("c!rq")
        ms = masks(S, a)
        out = [("arities are 0, 1 or 2", z3.And(N >= 1, z3.ForAll([k], z3.Implies(z3.And(0 <= k, k < N), z3.And(s.get(k).t >= 0, s.get(k).t <= 2))))),
               ("loop indices are in range", z3.And(0 <= a["i"].t, a["i"].t < L0, 0 <= a["j"].t, a["j"].t < L1, 0 <= a["k"].t, a["k"].t < L2, 0 <= a["pos"].t, a["pos"].t < L0 * L1 * L2))]
        for cc, (nm, Ln) in enumerate((("t0", L0), ("t1", L1), ("t2", L2))):
            o = S.seq(a[nm])
            out.append(("every tuple of %s has one label per node of arity %d (itertools.product(..., repeat=n%d)), each of at most 100 characters" % (nm, cc, cc),
                        z3.ForAll([r], z3.Implies(z3.And(0 <= r, r < Ln), S.seq(o.get(r)).len == CNT(ms[cc], N)))))
            rr, qq = z3.Int("r!w%d" % cc), z3.Int("q!w%d" % cc)
            out.append(("labels in %s have at most 100 characters (basis names; 'a<k>' for k < 10^98)" % nm,
                        z3.ForAll([rr, qq], STRLEN(S.seq(o.get(rr)).get(qq).t) <= 100)))
        return out

    def setup(eng, st, args):
        st.env["rank"] = VInt(z3.Int("rank"))
        str_len(eng, eng.label_of("None"))

    def ensures(S, a, res):
        ms = masks(S, a)
        lab = S.seq(S.var("labels"))
        p = z3.Int(fresh_name("p!sk"))
        s = S.seq(a["s"])
        rows = [S.seq(S.seq(a[nm]).get(a[ix].t)) for nm, ix in (("t0", "i"), ("t1", "j"), ("t2", "k"))]
        want = z3.If(s.get(p).t == 0, rows[0].get(RNK(ms[0], N, p)).t, z3.If(s.get(p).t == 1, rows[1].get(RNK(ms[1], N, p)).t, rows[2].get(RNK(ms[2], N, p)).t))
        inr = z3.And(0 <= p, p < N)
        out = [("the label array has one entry per node", lab.len == N),
               ("position p holds the label of its arity class, in order of appearance: labels[p] = t_c[row][rank_c(p)], c = s[p]", z3.Implies(inr, lab.get(p).t == want))]
        at = S.seq(a["all_tree"]).get(a["pos"].t)
        if isinstance(at, VRef):
            cp = S.seq(at)
            out.append(("on rank 0 all_tree[pos] is a separate copy with the same contents",
                        z3.And(z3.BoolVal(at.addr != S.var("labels").addr), cp.len == N, z3.Implies(inr, cp.get(p).t == want))))
        else:
            from pyvc.values import VMaybeNone
            if isinstance(at, VMaybeNone):
                cp = S.seq(at.val)
                out.append(("on rank 0 all_tree[pos] is a separate copy with the same contents",
                            z3.Implies(S.var("rank").t == 0, z3.And(z3.Not(at.isnone), cp.len == N, z3.Implies(inr, cp.get(p).t == want)))))
            else:
                out.append(("on rank 0 all_tree[pos] is a copy of the labels", z3.BoolVal(False)))
        return out

    c = Contract("shape_to_functions", {"s": mk_s, "t0": mk_tl("t0", L0), "t1": mk_tl("t1", L1), "t2": mk_tl("t2", L2), "i": T.int, "j": T.int, "k": T.int, "pos": T.int,
                                        "all_tree": mk_all_tree},
                 requires=requires, ensures=ensures, setup=setup, region=_stf_labels_region, raises=lambda S, a, e: z3.BoolVal(False))
    c.region_name = "labels: every node gets the label of its arity class, in order"
    return c


# ------------------------------------------------------------ find_additional_trees: the rewriting driver (C11)
Fn_ = __import__("pyvc.values", fromlist=["Fn"]).Fn
RW = z3.Function("rewrite.step", Fn_, Fn_, Fn_, z3.BoolSort())       # RW(parent labels, labels, shape): one update_* call produced (labels, shape) from parent
CTF = z3.Function("check_tree.tree", Fn_, Fn_)                        # the Node list check_tree builds for a shape
ITEM = z3.Function("opaque.item", Fn_, z3.IntSort(), Fn_)


def fat_contract(variant="ok"):
    """find_additional_trees(tree, labels, basis): the driver around update_tree / update_sums (whose per-step contracts are assumed here and
    checked by the bounded part: every (labels, shape) pair they return is a well-formed in-basis tree equal to the tree they were given).
    Proved for the driver, for any number of rounds:
      * the two returned lists have the same length and entry 0 is the tree handed in;
      * every other entry k has a parent entry PAR(k) < k such that (new_labels[k], shape_k) was returned by ONE update_* call on
        new_labels[PAR(k)], and new_tree[k] is the Node list check_tree builds for that same shape_k (labels and tree stay in lock step);
      * no label list occurs twice.
    With the step contract this gives C11 by induction over k (lemma `chain`).  Termination is not proved (A-term).
    variant: 'ok' initial_sympify returns, 'raises' it raises (the sum rewrite is then discarded)."""
    from pyvc.engine import LoopSpec
    from pyvc.values import VFn, VTuple, VMaybeNone, VBool, VNone, ite
    from pyvc.models import PyRaise
    GT_F = T("ghostfn", z3.IntSort(), Fn_)
    GT_I = T("ghostfn", z3.IntSort(), z3.IntSort())

    def fnv(v):
        return v.val.t if isinstance(v, VMaybeNone) else v.t

    def upd_model(name):
        def m(eng, st, a, k, node):
            par = a[1]
            st.ghost = dict(st.ghost)
            st.ghost["par_labels"] = par.t
            nm = fresh_name(name)
            L, s, n = VFn(z3.Const(nm + ".L", Fn_)), VFn(z3.Const(nm + ".s", Fn_)), z3.Int(nm + ".n")
            isnone = z3.Bool(nm + ".none")
            j = z3.Int("j!st")
            # assumed per-step contract (bounded part): a returned (labels, shape) pair is ONE rewrite of the tree that was handed in
            st.assume(z3.Implies(z3.Not(isnone), z3.And(n >= 1, z3.Implies(n == 1, RW(par.t, L.t, s.t)),
                                                        z3.Implies(n > 1, z3.ForAll([j], z3.Implies(z3.And(0 <= j, j < n), RW(par.t, ITEM(L.t, j), ITEM(s.t, j))))))))
            return VTuple([L, VMaybeNone(isnone, s), VInt(n)])
        return m

    def check_tree_model(eng, st, a, k, node):
        sh = a[0]
        if isinstance(sh, VMaybeNone):
            eng.oblige(st, "check_tree is called with a shape, not None", z3.Not(sh.isnone), "safety", node)
        t = fnv(sh)
        st.ghost = dict(st.ghost)
        st.ghost["last_shape"] = t
        return VTuple([VBool(z3.Bool(fresh_name("ct.ok"))), VNone(), VFn(CTF(t))])

    def sympify_model(eng, st, a, k, node):
        if variant == "raises":
            raise PyRaise("Exception")
        return VTuple([VFn(z3.Const(fresh_name("strs"), Fn_)), eng.fresh(T.list(T.fn), "sym", st)])

    def setup(eng, st, args):
        eng.models["update_tree"] = upd_model("ut")
        eng.models["update_sums"] = upd_model("us")
        eng.models["check_tree"] = check_tree_model
        eng.models["node_to_string"] = lambda e, s, a, k, n: VLabel(z3.Const(fresh_name("fstr"), Label))
        eng.models["simplifier.initial_sympify"] = sympify_model
        st.env["__shp"] = eng.fresh(GT_F, "SHP", st)
        st.env["__par"] = eng.fresh(GT_I, "PAR", st)
        st.ghost["tree0"], st.ghost["labels0"] = args["tree"], args["labels"]

    def INV(S, st, extra_len=None, inner=False):
        nt, nl, ti = S.seq(S.var("new_tree")), S.seq(S.var("new_labels")), S.seq(S.var("try_idx"))
        SHP, PAR = S.var("__shp").obj, S.var("__par").obj
        q, q2 = z3.Int("q!fa"), z3.Int("q2!fa")
        out = [("the three lists have one entry per tree, at least the original", z3.And(nt.len == nl.len, ti.len == nl.len, nl.len >= 1)),
               ("entry 0 is the tree handed in", z3.And(nl.get(z3.IntVal(0)).t == st.ghost["labels0"].t, nt.get(z3.IntVal(0)).t == st.ghost["tree0"].t)),
               ("every other entry was produced by one rewriting step from an earlier entry, and its Node list was built from the shape returned with its labels",
                z3.ForAll([q], z3.Implies(z3.And(1 <= q, q < nl.len), z3.And(0 <= PAR(q), PAR(q) < q, RW(nl.get(PAR(q)).t, nl.get(q).t, SHP(q)), nt.get(q).t == CTF(SHP(q)))))),
               ("no label list occurs twice", z3.ForAll([q, q2], z3.Implies(z3.And(0 <= q, q < q2, q2 < nl.len), nl.get(q).t != nl.get(q2).t)))]
        if "old_len" in st.env and extra_len:
            out.append(("the lists only grow during a round", z3.And(S.var("old_len").t >= 0, S.var("old_len").t <= nl.len)))
        if inner and "par_labels" in st.ghost:
            i = S.var("i").t
            out.append(("the entry being rewritten is still where it was (appending does not move earlier entries)",
                        z3.And(0 <= i, i < nl.len, nl.get(i).t == st.ghost["par_labels"])))
        return out

    def loop_select(node):
        is_while = isinstance(node, _ast.While)
        inner_j = isinstance(node, _ast.For) and isinstance(node.target, _ast.Name) and node.target.id == "j"
        ls = LoopSpec(lambda S, st: INV(S, st, extra_len=not is_while, inner=inner_j),
                      havoc_types={"L": T.fn, "s": T.opt(T.fn), "n": T.int, "t": T.fn, "_": T.fn, "f": T.list(T.label), "sym": T.list(T.fn), "max_param": T.int,
                                   "old_len": T.int, "i": T.int, "j": T.int})
        ls.ghost = ["__shp", "__par"]
        return ls

    def on_append(S, st, node):
        """ghost update right before `new_labels.append(X)`: the new entry's parent is the entry being rewritten, its shape the one just passed to check_tree"""
        k = S.seq(S.var("new_labels")).len
        sh = st.ghost.get("last_shape")
        if sh is None:
            raise Unsupported("new_labels.append without a preceding check_tree call")
        SHP, PAR = S.var("__shp").obj, S.var("__par").obj
        i = S.var("i").t
        g1 = VConc("ghostfn", lambda q, SHP=SHP, k=k, sh=sh: z3.If(q == k, sh, SHP(q)))
        g1.gtype = GT_F
        g2 = VConc("ghostfn", lambda q, PAR=PAR, k=k, i=i: z3.If(q == k, i, PAR(q)))
        g2.gtype = GT_I
        st.env["__shp"], st.env["__par"] = g1, g2

    def ensures(S, a, res):
        if not (isinstance(res, VTuple) and len(res.items) == 2):
            raise Unsupported("find_additional_trees no longer returns a pair")
        st = S.st
        st.env = dict(st.env)
        st.env["new_tree"], st.env["new_labels"] = res.items
        return INV(S, st)

    c = Contract("find_additional_trees", {"tree": T.fn, "labels": T.fn, "basis_functions": T.fn}, ensures=ensures, setup=setup,
                 raises=lambda S, a, e: z3.BoolVal(False))
    c.loop_select = loop_select
    c.stmt_hooks = [(lambda n: isinstance(n, _ast.Expr) and isinstance(n.value, _ast.Call) and getattr(n.value.func, "attr", None) == "append"
                     and getattr(n.value.func.value, "id", None) == "new_labels", on_append)]
    return c


def fat_chain_lemma():
    """C11 from the driver's postcondition and the step contract, by induction over the entry index k:
       step contract: RW(p, l, s) => WF(l, s) and EQ(p, l);  EQ reflexive and transitive
       driver:        every k >= 1 has PAR(k) < k with RW(lab[PAR k], lab[k], SHP k)
       claim:         every entry k is well formed (k >= 1) and equal to entry 0."""
    lab = z3.Function("lab", z3.IntSort(), Fn_)
    SHP = z3.Function("SHPl", z3.IntSort(), Fn_)
    PAR = z3.Function("PARl", z3.IntSort(), z3.IntSort())
    WF = z3.Function("wellformed", Fn_, Fn_, z3.BoolSort())
    EQ = z3.Function("same_function", Fn_, Fn_, z3.BoolSort())
    n, k, q = z3.Ints("n k q")
    a, b, c_, s = z3.Consts("a b c s", Fn_)
    step = z3.ForAll([a, b, s], z3.Implies(RW(a, b, s), z3.And(WF(b, s), EQ(a, b))))
    refl = z3.ForAll([a], EQ(a, a))
    trans = z3.ForAll([a, b, c_], z3.Implies(z3.And(EQ(a, b), EQ(b, c_)), EQ(a, c_)))
    drv = z3.ForAll([q], z3.Implies(z3.And(1 <= q, q < n), z3.And(0 <= PAR(q), PAR(q) < q, RW(lab(PAR(q)), lab(q), SHP(q)))))
    hyp = z3.And(step, refl, trans, drv)
    claim = lambda kk: z3.And(EQ(lab(z3.IntVal(0)), lab(kk)), z3.Implies(kk >= 1, WF(lab(kk), SHP(kk))))
    return [("chain, base: entry 0 equals itself", z3.Implies(hyp, EQ(lab(z3.IntVal(0)), lab(z3.IntVal(0))))),
            ("chain, step: if every earlier entry equals entry 0 then entry k is well formed and equals entry 0",
             z3.Implies(z3.And(hyp, 1 <= k, k < n, z3.ForAll([q], z3.Implies(z3.And(0 <= q, q < k), claim(q)))), claim(k)))]


# ------------------------------------------------------------------------------ get_allowed_shapes (C01)
def allowed_shapes_contract():
    """get_allowed_shapes(compl), rank 0: the rows of the result are exactly the valid arity strings of length compl, each once.

    Validity is the Lukasiewicz condition on the content of a row (an uninterpreted predicate VAL of the row, tied to the verified contract
    of check_tree by the lemmas `shape_lemmas`).  check_tree is used through that contract, restated for a row of the candidate matrix:
        success  <=>  VAL(row);     on failure part_considered = row[:m], 2 <= m <= n, and every row that starts with it is invalid.
    Facts about validity used (lemmas): a valid string of length > 1 does not start with 0, ends with 0 and does not have 2 in the
    last-but-one place; validity depends on the content only.  itertools.product('012', repeat=n) enumerates every string once (A-ext).
    Proved:  soundness (every returned row is valid), completeness (every valid string over {0,1,2} of length compl is a returned row)
    and distinctness (no string is returned twice)."""
    from pyvc.engine import LoopSpec
    from pyvc.values import VBool, VTuple, VMaybeNone, H2D, HRec
    from pyvc.models import CNT, IDX, RNK
    NN = z3.Int("compl")
    VALR = z3.Function("valid.row", z3.IntSort(), z3.BoolSort())            # validity of row k of the candidate matrix the loop runs over
    SK = z3.Function("sk", z3.IntSort(), z3.IntSort())                      # an arbitrary string (Skolem) for the completeness claim
    VAL_SK = z3.Bool("valid.sk")

    def cand3(S):
        return S.st.ghost["cand3"]

    def check_tree_callsite(eng, st, a, k, node):
        row = st.heap[a[0].addr]
        C3 = st.ghost.get("cand3")
        if C3 is None:
            raise Unsupported("check_tree is called before the candidate matrix is fixed")
        i = st.env["i"].t
        q, c = z3.Int(fresh_name("q!ct")), z3.Int(fresh_name("c!ct"))
        # requires of check_tree (its verified contract): entries 0/1/2, n >= 1, a longer string does not start with a leaf, a single node is a leaf
        s2 = st.fork()
        s2.pc = list(st.pc) + [0 <= c, c < row.len]
        eng.oblige(s2, "requires of check_tree: arities are 0, 1 or 2", z3.And(row.get(c).t >= 0, row.get(c).t <= 2), "requires", node)
        eng.oblige(st, "requires of check_tree: n >= 1; a string of more than one node does not start with a leaf; a single node is a leaf",
                   z3.And(row.len >= 1, z3.Implies(row.len > 1, row.get(z3.IntVal(0)).t != 0), z3.Implies(row.len == 1, row.get(z3.IntVal(0)).t == 0)), "requires", node)
        nm = fresh_name("ct")
        succ = z3.Bool(nm + ".success")
        m = z3.Int(nm + ".m")
        pcv = eng.fresh(T.arr(T.int), nm + ".part", st)
        P = st.heap[pcv.addr]
        P.len = m
        g3 = C3.get
        st.assume(succ == VALR(i))
        st.assume(z3.Implies(z3.And(z3.Not(succ), row.len > 1), z3.And(
            2 <= m, m <= row.len, z3.ForAll([c], z3.Implies(z3.And(0 <= c, c < m), P.get(c).t == g3(i, c).t)),
            # every row of the matrix that starts with the prefix is invalid (lemma L3 over the contract of check_tree)
            z3.ForAll([q], z3.Implies(z3.And(0 <= q, q < C3.rows, z3.ForAll([c], z3.Implies(z3.And(0 <= c, c < m), g3(q, c).t == g3(i, c).t))), z3.Not(VALR(q)))))))
        st.assume(z3.Implies(row.len == 1, succ))
        tree = eng.fresh(T.list(T.fn), nm + ".tree", st)
        return VTuple([VBool(succ), VMaybeNone(z3.And(succ, row.len == 1), pcv) if False else pcv, tree])

    def setup(eng, st, args):
        from pyvc import models_np2
        models_np2.install(eng)
        eng.models["check_tree"] = check_tree_callsite
        st.env["rank"] = VInt(0)
        st.env["comm"] = VConc("comm")

    def hook_msk(S, st, node):
        # `msk = np.ones(cand.shape[0], dtype=bool)`: the candidate matrix is fixed from here on
        st.ghost = dict(st.ghost)
        st.ghost["cand3"] = st.heap[S.var("cand").addr]
        C3 = st.ghost["cand3"]
        prod = S.eng._product
        n = prod["n"]
        k, c = z3.Int("k!sk"), z3.Int("c!sk")
        # content determines validity (lemma): a row that equals the Skolem string is valid iff the string is
        S.eng.axioms.append(z3.ForAll([k], z3.Implies(z3.And(0 <= k, k < C3.rows, z3.ForAll([c], z3.Implies(z3.And(0 <= c, c < n), C3.get(k, c).t == SK(c)))), VALR(k) == VAL_SK),
                                      patterns=[VALR(k)]))

    def inv(S, st):
        i = S.i(S.var("__i"))
        C3 = cand3(S)
        msk = S.seq(S.var("msk"))
        k = z3.Int("k!inv")
        return [("msk has one entry per candidate", msk.len == C3.rows),
                ("a candidate that has been struck out is invalid", z3.ForAll([k], z3.Implies(z3.And(0 <= k, k < C3.rows, z3.Not(msk.get(k).t)), z3.Not(VALR(k))))),
                ("a candidate that was visited and is still in is valid", z3.ForAll([k], z3.Implies(z3.And(0 <= k, k < i, msk.get(k).t), VALR(k))))]

    def requires(S, a):
        return [("compl >= 1", a["compl"].t >= 1)]

    def ensures(S, a, res):
        eng, st = S.eng, S.st
        if not isinstance(res, VRef) or not isinstance(st.heap[res.addr], H2D):
            return [("returns the matrix of shapes", z3.BoolVal(False))]
        RES = st.heap[res.addr]
        C3 = cand3(S)
        prod = eng._product
        n, NP, PCH = prod["n"], prod["NP"], prod["PCH"]
        iof = eng.label_fn("int_of")
        out = [("one column per node", RES.cols == a["compl"].t)]
        if not (RES.note and RES.note[0] == "filter"):
            return out + [("the result is a row selection of the candidate matrix", z3.BoolVal(False))]
        mfin, nrows = RES.note[1], RES.note[2]
        r0, c0 = z3.Int(fresh_name("r!sk")), z3.Int(fresh_name("c!sk"))
        src = IDX(mfin, nrows, r0)
        out.append(("soundness: every returned row is a valid arity string (and is row src(r) of the candidate matrix)",
                    z3.Implies(z3.And(0 <= r0, r0 < RES.rows), z3.And(0 <= src, src < C3.rows, VALR(src), z3.Implies(z3.And(0 <= c0, c0 < n), RES.get(r0, c0).t == C3.get(src, c0).t)))))
        # completeness: an arbitrary valid string SK over {0,1,2} of length compl is a returned row
        c = z3.Int("c!cmp")
        sk_ok = z3.ForAll([c], z3.Implies(z3.And(0 <= c, c < n), z3.And(SK(c) >= 0, SK(c) <= 2)))
        # A-ext (itertools.product): SK is one of the enumerated tuples -- instance of the completeness of the enumeration
        pidx = z3.Int("pidx.sk")
        digit = lambda t: z3.If(t == 0, eng.label_of("0"), z3.If(t == 1, eng.label_of("1"), eng.label_of("2")))
        eng.axioms.append(z3.Implies(sk_ok, z3.And(0 <= pidx, pidx < NP, z3.ForAll([c], z3.Implies(z3.And(0 <= c, c < n), PCH(pidx, c) == digit(SK(c))), patterns=[PCH(pidx, c)]))))
        # lemmas about validity (from the definition, see shape_lemmas): a valid string of length > 1 starts with a non-leaf, ends with a leaf and its
        # last-but-one entry is not binary; a valid string of length 1 is the single leaf
        eng.axioms.append(z3.Implies(z3.And(VAL_SK, sk_ok), z3.And(SK(n - 1) == 0, z3.Implies(n > 1, z3.And(SK(z3.IntVal(0)) != 0, SK(n - 2) != 2)))))
        # the witness row: follow the string through the three column filters and the final mask
        chain = []
        o = RES
        while getattr(o, "note", None) and o.note[0] == "filter":
            chain.append((o.note[1], o.note[2]))
            o = o.note[3] if len(o.note) > 3 else None
            if o is None:
                break
        idx = pidx
        for ma_, n_ in reversed(chain):
            idx = RNK(ma_, n_, idx)
        w = idx
        out.append(("completeness: every valid string over {0,1,2} of length compl is one of the returned rows",
                    z3.Implies(z3.And(VAL_SK, sk_ok), z3.And(0 <= w, w < RES.rows, z3.Implies(z3.And(0 <= c0, c0 < n), RES.get(w, c0).t == SK(c0))))))
        r1, r2 = z3.Int(fresh_name("r1!sk")), z3.Int(fresh_name("r2!sk"))
        # the column in which they differ: the one in which the two enumerated tuples they come from differ (witness of the enumeration's distinctness)
        s1, s2 = r1, r2
        for ma_, n_ in chain:
            s1, s2 = IDX(ma_, n_, s1), IDX(ma_, n_, s2)
        dcol = prod["DIFF"](s1, s2)
        out.append(("distinctness: two different returned rows differ in some column",
                    z3.Implies(z3.And(0 <= r1, r1 < r2, r2 < RES.rows), z3.And(0 <= dcol, dcol < n, RES.get(r1, dcol).t != RES.get(r2, dcol).t))))
        return out

    ls = LoopSpec(inv, havoc_types={"success": T.bool, "part_considered": T.arr(T.int), "tree": T.list(T.fn), "m": T.arr(T.int)})
    c = Contract("get_allowed_shapes", {"compl": lambda e, s: VInt(NN)}, requires=requires, ensures=ensures, setup=setup,
                 raises=lambda S, a, e: z3.BoolVal(False), hooks={"msk": hook_msk})
    c.loop_select = lambda node: ls
    return c


# ------------------------------------------------------------- the pprint writers of duplicate_checker.main / check_results (C02, C03, C14)
def _with_for_path(fnode, fragment, which=0):
    hits = []
    for n in _ast.walk(fnode):
        if isinstance(n, _ast.With) and n.items and isinstance(n.items[0].context_expr, _ast.Call) and getattr(n.items[0].context_expr.func, "id", None) == "open":
            a0 = n.items[0].context_expr.args[0] if n.items[0].context_expr.args else None
            if a0 is not None and fragment in _ast.dump(a0):
                mode = n.items[0].context_expr.args[1] if len(n.items[0].context_expr.args) > 1 else None
                if isinstance(mode, _ast.Constant) and "w" in str(mode.value) or isinstance(mode, _ast.Constant) and "a" in str(mode.value):
                    hits.append(n)
    hits.sort(key=lambda n: n.lineno)
    return [hits[which]] if which < len(hits) else None


def line_writer_contract(qual, fragment, lists, which=0, mode="w", rank0=True, ints=()):
    """A `with open(<path containing fragment>, mode)` block that writes the strings (or numbers) of `lists` (names, in this order), one
    per iteration, with PrettyPrinter.pprint or print(file=): the file gets exactly len(list_1) + len(list_2) + ... physical lines, in list
    order -- line i of the file is item i.  (A-str: a function string has no line break, backslash, quote or control character.)"""
    from pyvc.engine import LoopSpec
    from pyvc.models import STRLEN, STRNL

    def mk(name):
        def f(eng, st):
            if name in ints:
                return eng.fresh(T.list(T.int), name, st)
            v = eng.fresh(T.list(T.label), name, st)
            g = st.heap[v.addr].get
            k = z3.Int("k!astr")
            t = g(k).t
            if z3.is_app(t) and t.decl().kind() == z3.Z3_OP_UNINTERPRETED:
                eng.axioms.append(z3.ForAll([k], z3.And(STRLEN(t) >= 1, STRNL(t) == 0), patterns=[t]))
            return v
        return f

    def setup(eng, st, args):
        if rank0:
            st.env["rank"] = VInt(0)
        from pyvc.models import str_len
        str_len(eng, eng.label_of("\n"))
        st.ghost["lens"] = [st.heap[args[n].addr].len for n in lists]

    def inv_for(j):
        def inv(S, st):
            i = S.i(S.var("__i"))
            before = sum(st.ghost["lens"][:j], z3.IntVal(0)) if j else z3.IntVal(0)
            out = [("one line per item written so far", S.var("__lines").t == before + i)]
            if "w" in st.env and "pp" in st.env:
                pp = st.heap[S.var("pp").addr]
                out.append(("the printer's width is the current w and at least 80", z3.And(S.var("w").t >= 80, S.eng.as_int(pp.fields["_width"]) == S.var("w").t)))
            return out
        return inv

    counter = {"n": 0, "seen": {}}

    def loop_select(node):
        key = id(node)
        if key not in counter["seen"]:
            counter["seen"][key] = counter["n"]
            counter["n"] += 1
        ls = LoopSpec(inv_for(counter["seen"][key]), havoc_types={"s": T.label, "pp": T("obj", "PrettyPrinter", (("_width", T.int),))})
        ls.ghost = ["__lines"]
        return ls

    def ensures(S, a, res):
        wr = S.st.ghost.get("written", ())
        total = sum(S.st.ghost["lens"], z3.IntVal(0))
        if len(wr) != 1:
            return [("exactly one file is written by this block", z3.BoolVal(False))]
        path, md, lines, lineno = wr[0]
        return [("the file gets exactly one physical line per item of %s, in order" % " + ".join(lists), lines == total),
                ("the file is opened in mode %r" % mode, z3.BoolVal(md == mode))]

    params = {n: mk(n) for n in lists}
    params.update({"dirname": T.label, "compl": T.int})
    c = Contract(qual, params, ensures=ensures, setup=setup, region=lambda fnode: _with_for_path(fnode, fragment, which), raises=lambda S, a, e: z3.BoolVal(False))
    c.loop_select = loop_select
    c.region_name = "writer of %s (%s)" % (fragment, " + ".join(lists))
    return c


# ------------------------------------------------------------------------------ labels_to_shape (C18, C20)
def labels_to_shape_contract():
    """labels_to_shape(labels, basis_functions), basis_functions = [nullary, unary, binary] with pairwise disjoint classes:
    on return s has one entry per label; s[p] = c when labels[p] is an operator of class c; s[p] = 0 when labels[p] is in no class and is parameter-like
    ('a' followed by digits) or a number (generator.is_float).  ValueError escapes only when some label is in no class and is neither.
    The dictionary built by the first loop is described with two ghost-free facts plus a ghost witness (the position inside its class at which a key was stored)."""
    from pyvc.engine import LoopSpec
    from pyvc.values import HSeq, HDict, VConc
    I = z3.IntSort()
    BC = z3.Function("basis.label", I, I, Label)          # label k of class c
    BL = z3.Function("basis.len", I, I)
    GT = T("ghostfn", Label, I)

    def PARAMLIKE(t):
        """the code's test: t.startswith('a') and t[1:].isdigit()"""
        return z3.And(z3.Function("str.startswith:a", Label, z3.BoolSort())(t), z3.Function("str.isdigit", Label, z3.BoolSort())(M.STRTAIL(t, z3.IntVal(1))))

    def mk_basis(eng, st):
        rows = [st.alloc(HSeq(BL(z3.IntVal(c)), (lambda k, c=c: VLabel(BC(z3.IntVal(c), k))), etype=T.label)) for c in range(3)]
        return eng.mk_list(rows, st)

    def dict_of(S):
        return S.st.heap[S.var("basis_dict").addr]

    def wk(S):
        return S.var("__wk").obj

    def dict_facts(S, c_done, k_done, cls):
        """classes < c_done are stored completely, of class cls == c_done the first k_done entries"""
        d = dict_of(S)
        s_ = z3.Const("s!ls", Label)
        c_, k_ = z3.Ints("c!ls k!ls")
        W = wk(S)
        return [("every key was stored for one of the entries handled so far: its value is that entry's class, the ghost its position",
                 z3.ForAll([s_], z3.Implies(d.has(s_), z3.And(0 <= d.val(s_).t, d.val(s_).t <= cls, d.val(s_).t < 3, 0 <= W(s_), W(s_) < BL(d.val(s_).t),
                                                             BC(d.val(s_).t, W(s_)) == s_, z3.Implies(d.val(s_).t == c_done, W(s_) < k_done))))),
                ("every entry handled so far is a key",
                 z3.ForAll([c_, k_], z3.Implies(z3.And(0 <= c_, c_ < 3, 0 <= k_, k_ < BL(c_), z3.Or(c_ < c_done, z3.And(c_ == c_done, k_ < k_done))), d.has(BC(c_, k_))), patterns=[BC(c_, k_)]))]

    def inv_inner(S, st):
        i = S.var("i")
        if not isinstance(i, VInt):
            raise Unsupported("loop variable of the class loop")
        return dict_facts(S, i.t, S.i(S.var("__i")), i.t)

    def on_store(S, st):
        """ghost update after `basis_dict[f] = i`: the key was stored for position __i of class i"""
        old = S.var("__wk").obj
        key = S.var("f").t
        pos = S.i(S.var("__i1")) if "__i1" in st.env else S.i(S.var("__i"))
        g = VConc("ghostfn", lambda q, old=old, key=key, pos=pos: z3.If(q == key, pos, old(q)))
        g.gtype = GT
        st.env["__wk"] = g

    def ival(v):
        """(is an int, its term) of a list entry that may still be None"""
        from pyvc.values import VMaybeNone, VBool
        if isinstance(v, VInt):
            return z3.BoolVal(True), v.t
        if isinstance(v, VMaybeNone) and isinstance(v.val, VInt):
            return z3.Not(v.isnone), v.val.t
        if isinstance(v, VNone):
            return z3.BoolVal(False), z3.IntVal(0)
        raise Unsupported("entry of s: %r" % (v,))

    def spec_entry(S, lab, val):
        """val is the arity class of label lab"""
        d_c, d_k = z3.Ints(fresh_name("c!sk") + " " + fresh_name("k!sk"))
        inb = INB(lab)
        return z3.And(z3.Implies(z3.And(0 <= d_c, d_c < 3, 0 <= d_k, d_k < BL(d_c), BC(d_c, d_k) == lab), val == d_c),
                      z3.Implies(z3.Not(inb), z3.And(val == 0, z3.Or(PARAMLIKE(lab), M.ISFLOAT(lab)))))

    INB = z3.Function("basis.has", Label, z3.BoolSort())
    WC, WKK = z3.Function("basis.wc", Label, I), z3.Function("basis.wk", Label, I)

    def inv_labels(S, st):
        i = S.i(S.var("__i"))
        L = S.seq(S.eng.args0["labels"])
        sv = S.seq(S.var("s"))
        p = z3.Int("p!ls")
        d = dict_of(S)
        out = dict_facts(S, z3.IntVal(3), z3.IntVal(0), z3.IntVal(2))
        out.append(("one slot per label", sv.len == L.len))
        out.append(("the entries already written are the arity classes of their labels",
                    z3.ForAll([p], z3.Implies(z3.And(0 <= p, p < i), z3.And(
                        ival(sv.get(p))[0],
                        z3.Implies(d.has(L.get(p).t), ival(sv.get(p))[1] == d.val(L.get(p).t).t),
                        z3.Implies(z3.Not(d.has(L.get(p).t)), z3.And(ival(sv.get(p))[1] == 0, z3.Or(PARAMLIKE(L.get(p).t), M.ISFLOAT(L.get(p).t)))))))))
        return out

    def requires(S, a):
        c_, c2, k_, k2 = z3.Ints("c!rq c2!rq k!rq k2!rq")
        return [("the three classes are pairwise disjoint; lengths are non-negative",
                 z3.And(BL(z3.IntVal(0)) >= 0, BL(z3.IntVal(1)) >= 0, BL(z3.IntVal(2)) >= 0,
                        z3.ForAll([c_, c2, k_, k2], z3.Implies(z3.And(0 <= c_, c_ < c2, c2 < 3, 0 <= k_, k_ < BL(c_), 0 <= k2, k2 < BL(c2)), BC(c_, k_) != BC(c2, k2)))))]

    def setup(eng, st, args):
        st.env["__wk"] = eng.fresh(GT, "WK", st)
        eng.empty_dict_literal = (T.label, T.int, lambda: VInt(0))
        eng.keyerror_paths = True
        # `label is an operator of the basis` as a predicate with Skolem witnesses (a conservative definition of the existential)
        s_ = z3.Const("s!ax", Label)
        c_, k_ = z3.Ints("c!ax k!ax")
        eng.axioms.append(z3.ForAll([c_, k_], z3.Implies(z3.And(0 <= c_, c_ < 3, 0 <= k_, k_ < BL(c_)), INB(BC(c_, k_))), patterns=[BC(c_, k_)]))
        eng.axioms.append(z3.ForAll([s_], z3.Implies(INB(s_), z3.And(0 <= WC(s_), WC(s_) < 3, 0 <= WKK(s_), WKK(s_) < BL(WC(s_)), BC(WC(s_), WKK(s_)) == s_)), patterns=[INB(s_)]))

    def ensures(S, a, res):
        if not isinstance(res, VRef):
            return [("returns a list", z3.BoolVal(False))]
        L, sv = S.seq(a["labels"]), S.seq(res)
        p = z3.Int(fresh_name("p!sk"))
        return [("one entry per label", sv.len == L.len),
                ("entry p is the arity class of label p (0 for a parameter or a number that is no operator of the basis)",
                 z3.Implies(z3.And(0 <= p, p < L.len), z3.And(ival(sv.get(p))[0], spec_entry(S, L.get(p).t, ival(sv.get(p))[1]))))]

    def raises(S, a, exc):
        if exc != "ValueError":
            return z3.BoolVal(False)
        L = S.seq(a["labels"])
        p = z3.Int(fresh_name("p!rs"))
        eng = S.eng
        # ValueError may escape only if a label exists that is in no class and is neither parameter-like nor a number (witness: the loop position)
        i = S.var("i") if "i" in S.st.env else None
        t = S.var("t") if "t" in S.st.env else None
        if not isinstance(t, VLabel):
            return z3.BoolVal(False)
        return z3.And(z3.Not(INB(t.t)), z3.Not(PARAMLIKE(t.t)), z3.Not(M.ISFLOAT(t.t)))

    ls1 = LoopSpec(inv_inner)
    ls1.ghost = ["__wk"]
    ls2 = LoopSpec(inv_labels, havoc_types={"s": T.list(T.opt(T.int))})
    return Contract("labels_to_shape", {"labels": T.list(T.label), "basis_functions": mk_basis}, requires=requires, ensures=ensures, setup=setup,
                    loops={1: ls1, 2: ls2}, hooks={"basis_dict[]": on_store}, raises=raises, may_raise=("ValueError",))
