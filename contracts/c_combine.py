"""Sidecar contracts for esr/fitting/combine_DL.py::main (C06), verified region by region.

R1 = body of the loop over the rank's unique functions (minimum over the variants).
R2 = rank-0 block from the NaN mask to the normalisation of the relative probabilities.
Regions are located by structure (first loop whose body stores into DL_min; statements between
the assignment of `mask` and the in-place division of `Prel`), never by line number."""
import ast
import z3
from pyvc.engine import Contract, LoopSpec
from pyvc.values import (T, VInt, VFloat, VLabel, VRef, VBool, VConc, HSeq, H2D, Label, Unsupported, fresh_name,
                         fadd, fsame, feq, fle, flt, as_float, veq)
from pyvc import models as M


def _stores_into(stmt, name):
    for n in ast.walk(stmt):
        if isinstance(n, ast.Assign):
            for t in n.targets:
                if isinstance(t, ast.Subscript) and isinstance(t.value, ast.Name) and t.value.id == name:
                    return True
    return False


def region_r1(fnode):
    for s in fnode.body:
        if isinstance(s, ast.For) and any(_stores_into(b, "DL_min") for b in s.body):
            return s.body
    return None


def r1_contract():
    M_ = z3.Int("M")        # number of functions (variants)
    NP = z3.Int("NP")       # unique functions of this rank
    K_ = z3.Int("K")        # parameter columns

    def arr(name, etype, n):
        def mk(eng, st):
            v = eng.fresh(T.arr(etype) if etype.kind != "label" else T.list(etype), name, st)
            st.heap[v.addr].len = n
            return v
        return mk

    def arr2(name, rows):
        def mk(eng, st):
            v = eng.fresh(T.arr2(T.float), name, st)
            st.heap[v.addr].rows = rows
            st.heap[v.addr].cols = K_
            return v
        return mk

    params = {
        "negloglike": arr("negloglike", T.float, M_), "codelen": arr("codelen", T.float, M_), "aifeyn": arr("aifeyn", T.float, M_),
        "index": arr("index", T.real, M_), "params": arr2("params", M_), "fcn_list_all": arr("fcn_list_all", T.label, M_),
        "xarr_proc": arr("xarr_proc", T.int, NP), "fcn_list_proc": arr("fcn_list_proc", T.label, NP),
        "DL_min": arr("DL_min", T.float, NP), "negloglike_min": arr("negloglike_min", T.float, NP),
        "codelen_min": arr("codelen_min", T.float, NP), "aifeyn_min": arr("aifeyn_min", T.float, NP),
        "params_min": arr2("params_min", NP), "fcn_min": arr("fcn_min", T.opt(T.label), NP),
        "i": T.int, "rank": T.int, "print_frequency": T.int,
    }

    def requires(S, a):
        return [("sizes", z3.And(M_ >= 0, NP >= 1, K_ >= 0)), ("0 <= i < NP", z3.And(0 <= a["i"].t, a["i"].t < NP)),
                ("print_frequency >= 1", a["print_frequency"].t >= 1)]

    def setup(eng, st, args):
        # ghost copies of the inputs (the region must not change them) and of the outputs before the iteration
        st.ghost["pre"] = {k: st.heap[args[k].addr] for k in ("DL_min", "negloglike_min", "codelen_min", "aifeyn_min", "params_min", "fcn_min")}

    def ensures(S, a, res):
        eng, st = S.eng, S.st
        i = a["i"].t
        u = S.i(a["xarr_proc"], i)
        nll, cl, af, idx = [S.seq(a[k]) for k in ("negloglike", "codelen", "aifeyn", "index")]
        par, fl = st.heap[a["params"].addr], S.seq(a["fcn_list_all"])
        DLm, nm, cm, am = [S.seq(a[k]) for k in ("DL_min", "negloglike_min", "codelen_min", "aifeyn_min")]
        pm, fm = st.heap[a["params_min"].addr], S.seq(a["fcn_min"])
        inV = lambda j: z3.And(0 <= j, j < M_, feq(idx.get(j), VFloat(z3.ToReal(u))))
        DL = lambda j: fadd(fadd(nll.get(j), cl.get(j)), af.get(j))
        j, w, c = z3.Int("j!r1"), z3.Int("w!r1"), z3.Int("c!r1")
        allnan = z3.ForAll([j], z3.Implies(inV(j), DL(j).nan))
        out = [("no variant with a non-NaN description length => DL_min[i] is NaN", z3.Implies(allnan, DLm.get(i).nan))]
        # witness: the variant chosen by the code = IDX(mask, M, first-argmin); recover it from the state
        js = None
        if "negloglike_i" in st.env and isinstance(st.env["negloglike_i"], VRef):
            note = st.heap[st.env["negloglike_i"].addr].note
            if note and note[0] == "filter" and "DL" in st.env and isinstance(st.env["DL"], VRef):
                ma, n = note[1], note[2]
                dlo = st.heap[st.env["DL"].addr]
                jj, some = M.argmin_witness(eng, st, dlo)
                js = M.IDX(ma, n, jj)
        if js is None:
            raise Unsupported("cannot recover the chosen variant (variables negloglike_i / DL are gone)")
        chosen = z3.And(
            inV(js), z3.Not(DL(js).nan),
            z3.ForAll([j], z3.Implies(z3.And(inV(j), z3.Not(DL(j).nan)), fle(DL(js), DL(j)))),
            fsame(DLm.get(i), DL(js)),
            fsame(nm.get(i), nll.get(js)), fsame(cm.get(i), cl.get(js)), fsame(am.get(i), af.get(js)),
            z3.And(z3.Not(fm.get(i).isnone), fm.get(i).val.t == fl.get(js).t),
            z3.ForAll([c], z3.Implies(z3.And(0 <= c, c < K_), fsame(pm.get(i, c), par.get(js, c)))))
        out.append(("some variant has a non-NaN DL => row i carries DL, function, parameters and the three terms of one variant attaining the minimum",
                    z3.Implies(z3.Not(allnan), chosen)))
        # frame: other rows untouched
        pre = st.ghost["pre"]
        r = z3.Int("r!r1")
        frame = z3.ForAll([r], z3.Implies(z3.And(0 <= r, r < NP, r != i), z3.And(
            fsame(DLm.get(r), pre["DL_min"].get(r)), fsame(nm.get(r), pre["negloglike_min"].get(r)),
            fsame(cm.get(r), pre["codelen_min"].get(r)), fsame(am.get(r), pre["aifeyn_min"].get(r)))))
        out.append(("rows of other unique functions are not modified", frame))
        return out

    c = Contract("main", params, requires=requires, ensures=ensures, setup=setup, region=region_r1,
                 raises=lambda S, a, e: z3.BoolVal(False))
    c.region_name = "R1: minimum over variants"
    return c


# ------------------------------------------------------------------------------------------ R2
def region_r2(fnode):
    for s in ast.walk(fnode):
        if isinstance(s, ast.If):
            body = s.body
            start = end = None
            for k, b in enumerate(body):
                if isinstance(b, ast.Assign) and len(b.targets) == 1 and isinstance(b.targets[0], ast.Name) and b.targets[0].id == "mask" and start is None:
                    start = k
                if isinstance(b, ast.Assign) and len(b.targets) == 1 and isinstance(b.targets[0], ast.Name) and b.targets[0].id == "Prel_DL" and end is None:
                    end = k
            if start is not None and end is not None and end > start:
                return body[start:end]
    return None


def r2_contract(with_prel=False):
    N_ = z3.Int("NU")       # unique functions
    K_ = z3.Int("K")

    def arr(name, etype, n):
        def mk(eng, st):
            v = eng.fresh(T.arr(etype) if etype.kind != "label" else T.list(etype), name, st)
            st.heap[v.addr].len = n
            return v
        return mk

    def arr2(name, rows):
        def mk(eng, st):
            v = eng.fresh(T.arr2(T.float), name, st)
            st.heap[v.addr].rows = rows
            st.heap[v.addr].cols = K_
            return v
        return mk

    def mk_lik(eng, st):
        from pyvc.values import HObj
        return st.alloc(HObj("Likelihood", {k: VLabel(z3.Const("lik." + k, Label)) for k in ("out_dir", "final_prefix")}))

    params = {"DL_min": arr("DL_min", T.float, N_), "negloglike_min": arr("negloglike_min", T.float, N_),
              "codelen_min": arr("codelen_min", T.float, N_), "aifeyn_min": arr("aifeyn_min", T.float, N_),
              "params_min": arr2("params_min", N_), "fcn_min": arr("fcn_min", T.label, N_), "fcn_list": arr("fcn_list", T.label, N_),
              "likelihood": mk_lik, "comp": T.int}

    def requires(S, a):
        return [("sizes", z3.And(N_ >= 0, K_ >= 0))]

    def setup(eng, st, args):
        st.ghost["DL0"] = st.heap[args["DL_min"].addr]

    def loop_inv(S, st):
        """Suppression loop: after i rows, Prel_DL[k] (k < i) is +inf iff an earlier row has the same likelihood, else
        DL_sort[k] - DL_sort[0]; later entries still +inf; the list holds exactly the likelihoods of rows < i."""
        i = S.i(S.var("__i"))
        nll, DLs, PD = S.seq(S.var("negloglike_sort")), S.seq(S.var("DL_sort")), S.seq(S.var("Prel_DL"))
        lst = S.seq(S.var("negloglike_list"))
        m = nll.len
        k, k2, q = z3.Int("k!li"), z3.Int("k2!li"), z3.Int("q!li")
        POS = st.ghost.setdefault("POS", z3.Function(fresh_name("POS"), z3.IntSort(), z3.IntSort(), z3.IntSort()))
        SRC = st.ghost.setdefault("SRC", z3.Function(fresh_name("SRC"), z3.IntSort(), z3.IntSort(), z3.IntSort()))
        from pyvc.values import fsub
        sup = lambda kk: z3.Exists([k2], z3.And(0 <= k2, k2 < kk, feq(as_float(nll.get(k2)), as_float(nll.get(kk)))))
        return [
            ("Prel_DL has one entry per row", PD.len == m),
            ("list entries are likelihoods of earlier rows",
             z3.And(lst.len <= i, z3.ForAll([q], z3.Implies(z3.And(0 <= q, q < lst.len), z3.And(
                 0 <= SRC(i, q), SRC(i, q) < i, fsame(as_float(lst.get(q)), as_float(nll.get(SRC(i, q))))))))),
            ("every earlier likelihood is in the list",
             z3.ForAll([k], z3.Implies(z3.And(0 <= k, k < i), z3.And(
                 0 <= POS(i, k), POS(i, k) < lst.len, feq(as_float(lst.get(POS(i, k))), as_float(nll.get(k))))))),
            ("processed rows: +inf iff suppressed, else DL - DL_0",
             z3.ForAll([k], z3.Implies(z3.And(0 <= k, k < i), z3.And(
                 z3.Implies(sup(k), as_float(PD.get(k)).is_pinf()),
                 z3.Implies(z3.Not(sup(k)), fsame(as_float(PD.get(k)), fsub(as_float(DLs.get(k)), as_float(DLs.get(z3.IntVal(0)))))))))),
            ("unprocessed rows are still +inf",
             z3.ForAll([k], z3.Implies(z3.And(i <= k, k < m), as_float(PD.get(k)).is_pinf()))),
        ]

    def ensures(S, a, res):
        eng, st = S.eng, S.st
        DL0 = st.ghost["DL0"]
        valid = lambda q: z3.Not(DL0.get(q).nan)
        out = []
        DLs = S.seq(S.var("DL_sort"))
        m = DLs.len
        r, r2, c, q = z3.Int("r!r2"), z3.Int("r2!r2"), z3.Int("c!r2"), z3.Int("q!r2")
        if "indices_sort" not in st.env or st.unbound.get("indices_sort") is not None and not z3.is_false(st.unbound.get("indices_sort")):
            # empty table branch
            out.append(("no row survives only if every description length is NaN",
                        z3.And(m == 0, z3.ForAll([q], z3.Implies(z3.And(0 <= q, q < N_), z3.Not(valid(q)))))))
            return out
        ind = S.seq(S.var("indices_sort"))
        nl, cl, af = [S.seq(S.var(k)) for k in ("negloglike_sort", "codelen_sort", "aifeyn_sort")]
        ps = st.heap[S.var("params_sort").addr]
        fs = S.seq(S.var("fcn_min_sort"))
        nm, cm, am = [S.seq(a[k]) for k in ("negloglike_min", "codelen_min", "aifeyn_min")]
        pm, fm = st.heap[a["params_min"].addr], S.seq(a["fcn_min"])
        I = lambda rr: ind.get(rr).t
        out.append(("one row per unique function with a non-NaN description length (row -> unique is into the valid ones, injective)",
                    z3.And(ind.len == m, nl.len == m, cl.len == m, af.len == m, fs.len == m, ps.rows == m,
                           z3.ForAll([r], z3.Implies(z3.And(0 <= r, r < m), z3.And(0 <= I(r), I(r) < N_, valid(I(r))))),
                           z3.ForAll([r, r2], z3.Implies(z3.And(0 <= r, r < r2, r2 < m), I(r) != I(r2))))))
        arr_sort = st.heap[S.var("arr_sort").addr]
        if not (arr_sort.note and arr_sort.note[0] == "sorted"):
            raise Unsupported("arr_sort is not the result of sorted() any more")
        PINV = arr_sort.note[2]
        maskv = st.heap[S.var("mask").addr]
        mg = maskv.get
        ma = M.mask_array(eng, st, lambda k: mg(k).t)
        out.append(("every unique function with a non-NaN description length has a row (onto)",
                    z3.ForAll([q], z3.Implies(z3.And(0 <= q, q < N_, valid(q)),
                                              z3.And(0 <= PINV(M.RNK(ma, N_, q)), PINV(M.RNK(ma, N_, q)) < m, I(PINV(M.RNK(ma, N_, q))) == q)))))
        out.append(("rows are in non-decreasing order of description length",
                    z3.ForAll([r, r2], z3.Implies(z3.And(0 <= r, r < r2, r2 < m), fle(as_float(DLs.get(r)), as_float(DLs.get(r2)))))))
        out.append(("every column of row r is that of the same unique function",
                    z3.ForAll([r], z3.Implies(z3.And(0 <= r, r < m), z3.And(
                        fsame(as_float(DLs.get(r)), DL0.get(I(r))), fsame(nl.get(r), nm.get(I(r))), fsame(cl.get(r), cm.get(I(r))),
                        fsame(af.get(r), am.get(I(r))), fs.get(r).t == fm.get(I(r)).t,
                        z3.ForAll([c], z3.Implies(z3.And(0 <= c, c < K_), fsame(ps.get(r, c), pm.get(I(r), c)))))))))
        if with_prel:
            P = S.seq(S.var("Prel"))
            k2 = z3.Int("k2!p")
            sup = lambda kk: z3.Exists([k2], z3.And(0 <= k2, k2 < kk, feq(as_float(nl.get(k2)), as_float(nl.get(kk)))))
            d0 = as_float(DLs.get(z3.IntVal(0)))
            out.append(("relative probabilities: one per row, never negative, zero for rows repeating an earlier likelihood (finite best DL)",
                        z3.Implies(z3.And(m >= 1, d0.is_fin()), z3.And(
                            P.len == m,
                            z3.ForAll([r], z3.Implies(z3.And(0 <= r, r < m), z3.And(
                                z3.Not(as_float(P.get(r)).nan), as_float(P.get(r)).is_fin(), as_float(P.get(r)).val >= 0,
                                z3.Implies(sup(r), as_float(P.get(r)).val == 0))))))))
        return out

    c = Contract("main", params, requires=requires, ensures=ensures, setup=setup, region=region_r2,
                 loops={}, raises=lambda S, a, e: z3.BoolVal(False))
    c.region_name = "R2: NaN mask, sort, re-index"
    c.loop_inv = loop_inv
    return c


# ------------------------------------------------------------------------------------------ R3
def region_r3(fnode):
    for s in ast.walk(fnode):
        if isinstance(s, ast.If):
            body = s.body
            start = end = None
            for k, b in enumerate(body):
                if isinstance(b, ast.Assign) and len(b.targets) == 1 and isinstance(b.targets[0], ast.Name) and b.targets[0].id == "Prel_DL" and start is None:
                    start = k
                if isinstance(b, ast.AugAssign) and isinstance(b.target, ast.Name) and b.target.id == "Prel" and isinstance(b.op, ast.Div):
                    end = k
            if start is not None and end is not None and end > start:
                return body[start:end + 1]
    return None


def r3_contract():
    """Relative probabilities.  With SUP(k) :<=> an earlier row has exactly the same likelihood, E(k) = 0 if SUP(k) else
    exp(-(DL_k - DL_0)) (0 when that difference is +inf) and S = sum E: for a finite best description length the result is
    Prel(k) = E(k) / S -- finite, non-negative, zero exactly for suppressed (or infinitely worse) rows, S >= 1, and the sum is 1.
    Ghost functions (first earlier equal row, slot of a likelihood in the list, source row of a list entry) carry the
    witnesses of the existential statements through the loop."""
    from pyvc.engine import LoopSpec
    from pyvc.values import fsub, fexp, fneg, EXP, VConc
    M_ = z3.Int("mrows")
    GT = T("ghostfn", z3.IntSort(), z3.IntSort())

    def arr(name, etype, n):
        def mk(eng, st):
            v = eng.fresh(T.arr(etype), name, st)
            st.heap[v.addr].len = n
            return v
        return mk

    params = {"negloglike_sort": arr("negloglike_sort", T.float, M_), "DL_sort": arr("DL_sort", T.float, M_)}

    def requires(S, a):
        nl, dl = S.seq(a["negloglike_sort"]), S.seq(a["DL_sort"])
        k = z3.Int("k!rq")
        return [("at least one row", M_ >= 1),
                ("no NaN in the sorted table; rows are in non-decreasing order of description length (established by R2)",
                 z3.ForAll([k], z3.Implies(z3.And(0 <= k, k < M_), z3.And(z3.Not(nl.get(k).nan), z3.Not(dl.get(k).nan),
                                                                        fle(dl.get(z3.IntVal(0)), dl.get(k))))))]

    def setup(eng, st, args):
        for nm in ("__first", "__posl", "__src"):
            st.env[nm] = eng.fresh(GT, nm.strip("_"), st)
        eng._sum_terms = []

    def G(S, nm):
        return S.var(nm).obj

    def inv(S, st):
        i = S.i(S.var("__i"))
        nl, dl = S.seq(S.eng.args0["negloglike_sort"]), S.seq(S.eng.args0["DL_sort"])
        PD = S.seq(S.var("Prel_DL"))
        lst = S.seq(S.var("negloglike_list"))
        FIRST, POSL, SRC = G(S, "__first"), G(S, "__posl"), G(S, "__src")
        k, k2, q = z3.Int("k!r3"), z3.Int("k2!r3"), z3.Int("q!r3")
        d0 = dl.get(z3.IntVal(0))
        return [
            ("Prel_DL has one entry per row", PD.len == M_),
            ("ghost FIRST: -1, or an earlier row with exactly the same likelihood; -1 only if there is none",
             z3.ForAll([k], z3.Implies(z3.And(0 <= k, k < i), z3.And(
                 FIRST(k) >= -1, FIRST(k) < k,
                 z3.Implies(FIRST(k) >= 0, feq(nl.get(FIRST(k)), nl.get(k))),
                 z3.Implies(FIRST(k) == -1, z3.ForAll([k2], z3.Implies(z3.And(0 <= k2, k2 < k), z3.Not(feq(nl.get(k2), nl.get(k)))))))))),
            ("every list entry is the likelihood of an earlier row (ghost SRC)",
             z3.And(lst.len >= 0, lst.len <= i,
                    z3.ForAll([q], z3.Implies(z3.And(0 <= q, q < lst.len), z3.And(0 <= SRC(q), SRC(q) < i, fsame(as_float(lst.get(q)), nl.get(SRC(q)))))))),
            ("the likelihood of every earlier row is in the list (ghost POSL)",
             z3.ForAll([k], z3.Implies(z3.And(0 <= k, k < i), z3.And(0 <= POSL(k), POSL(k) < lst.len, feq(as_float(lst.get(POSL(k))), nl.get(k)))))),
            ("processed rows: +inf if suppressed, else DL - DL_0; unprocessed rows still +inf",
             z3.ForAll([k], z3.Implies(z3.And(0 <= k, k < M_), z3.And(
                 z3.Implies(z3.And(k < i, FIRST(k) >= 0), as_float(PD.get(k)).is_pinf()),
                 z3.Implies(z3.And(k < i, FIRST(k) == -1), fsame(as_float(PD.get(k)), fsub(dl.get(k), d0))),
                 z3.Implies(k >= i, as_float(PD.get(k)).is_pinf()))))),
        ]

    def upd(S, st, name, at, val):
        old = G(S, name)
        g = VConc("ghostfn", lambda q, old=old, at=at, val=val: z3.If(q == at, val, old(q)))
        g.gtype = GT
        st.env[name] = g

    def on_continue(S, st, node):
        # the likelihood of row i is already in the list: its witness position w gives the earlier row SRC(w)
        i = S.i(S.var("i"))
        wit = None
        for c in reversed(st.pc):
            if z3.is_const(c) and c.get_id() in getattr(S.eng, "_any_witness", {}):
                wit = S.eng._any_witness[c.get_id()]
                break
        if wit is None:
            raise Unsupported("membership witness not found at `continue`")
        upd(S, st, "__first", i, G(S, "__src")(wit))
        upd(S, st, "__posl", i, wit)

    def on_append(S, st, node):
        if not isinstance(node, ast.AugAssign):
            return
        i = S.i(S.var("i"))
        lst = S.seq(S.var("negloglike_list"))
        upd(S, st, "__first", i, z3.IntVal(-1))
        upd(S, st, "__posl", i, lst.len - 1)
        upd(S, st, "__src", lst.len - 1, i)

    def ensures(S, a, res):
        eng, st = S.eng, S.st
        nl, dl = S.seq(a["negloglike_sort"]), S.seq(a["DL_sort"])
        P = S.seq(S.var("Prel"))
        FIRST = G(S, "__first")
        d0 = dl.get(z3.IntVal(0))
        k, k2 = z3.Int("k!en"), z3.Int("k2!en")
        sup = lambda kk: z3.Exists([k2], z3.And(0 <= k2, k2 < kk, feq(nl.get(k2), nl.get(kk))))
        diff = lambda kk: fsub(dl.get(kk), d0)
        Ek = lambda kk: z3.If(z3.Or(FIRST(kk) >= 0, diff(kk).inf), z3.RealVal(0), EXP(-diff(kk).val))
        Earr = M.named_array(eng, z3.Lambda([k], Ek(k)), "E")
        Ssum = M.SUMR(Earr, M_)
        # lemma-library instances (pyvc/lemmas.py): non-negative sum bounded below by a summand; extensionality; division distributes
        q = z3.Int(fresh_name("q!l"))
        eng.axioms.append(z3.Implies(z3.ForAll([q], z3.Implies(z3.And(0 <= q, q < M_), z3.Select(Earr, q) >= 0)),
                                     z3.And(Ssum >= 0, Ssum >= z3.Select(Earr, z3.IntVal(0)))))
        for (arr_, nn) in getattr(eng, "_sum_terms", []):
            q2 = z3.Int(fresh_name("q!x"))
            eng.axioms.append(z3.Implies(z3.ForAll([q2], z3.Implies(z3.And(0 <= q2, q2 < M_), z3.Select(arr_, q2) == z3.Select(Earr, q2))),
                                         M.SUMR(arr_, M_) == Ssum))
        Parr = M.named_array(eng, z3.Lambda([k], as_float(P.get(k)).val), "PREL")
        q3 = z3.Int(fresh_name("q!d"))
        eng.axioms.append(z3.Implies(z3.And(Ssum != 0, z3.ForAll([q3], z3.Implies(z3.And(0 <= q3, q3 < M_), z3.Select(Parr, q3) == z3.Select(Earr, q3) / Ssum))),
                                     M.SUMR(Parr, M_) == Ssum / Ssum))
        fin0 = d0.is_fin()
        return [
            ("FIRST characterises suppression: FIRST(k) >= 0 <=> an earlier row has exactly the same likelihood",
             z3.ForAll([k], z3.Implies(z3.And(0 <= k, k < M_), (FIRST(k) >= 0) == sup(k)))),
            ("finite best description length: the normaliser S = sum E is at least 1 (row 0 is never suppressed and has E = 1)", z3.Implies(fin0, Ssum >= 1)),
            ("finite best description length: Prel(k) = E(k) / S, finite and non-negative, zero for suppressed rows",
             z3.Implies(fin0, z3.And(P.len == M_, z3.ForAll([k], z3.Implies(z3.And(0 <= k, k < M_), z3.And(
                 as_float(P.get(k)).is_fin(), as_float(P.get(k)).val == Ek(k) / Ssum, as_float(P.get(k)).val >= 0,
                 z3.Implies(FIRST(k) >= 0, as_float(P.get(k)).val == 0))))))),
            ("finite best description length: the relative probabilities sum to one", z3.Implies(fin0, M.SUMR(Parr, M_) == 1)),
        ]

    def loop_select(node):
        if isinstance(node, ast.For) and any(isinstance(x, ast.AugAssign) and getattr(x.target, "id", None) == "negloglike_list" for x in ast.walk(node)):
            ls = LoopSpec(inv, havoc_types={"negloglike_list": T.list(T.float)})
            ls.ghost = ["__first", "__posl", "__src"]
            return ls
        return None

    c = Contract("main", params, requires=requires, ensures=ensures, setup=setup, region=region_r3, raises=lambda S, a, e: z3.BoolVal(False),
                 hooks={"negloglike_list": on_append})
    c.region_name = "R3: duplicate suppression and normalised relative probabilities"
    c.loop_select = loop_select
    c.stmt_hooks = [(lambda n: isinstance(n, ast.Continue), on_continue)]
    return c


# ------------------------------------------------------------ R0: the per-rank table written by every rank and read back by rank 0
def _assigns_name(s, name):
    return isinstance(s, ast.Assign) and len(s.targets) == 1 and isinstance(s.targets[0], ast.Name) and s.targets[0].id == name


def region_r0_writer(fnode):
    for s in fnode.body:
        if _assigns_name(s, "out_arr"):
            return [s]
    return None


def region_r0_reader(fnode):
    for s in ast.walk(fnode):
        if isinstance(s, ast.If):
            start = end = None
            for k, b in enumerate(s.body):
                if _assigns_name(b, "data") and start is None:
                    start = k
                if _assigns_name(b, "aifeyn_min") and start is not None:
                    end = k
            if start is not None and end is not None:
                return s.body[start:end + 1]
    return None


def r0_writer_contract():
    """out_arr has one row per unique function of this rank and the columns  DL | parameter columns | -logL | codelen | aifeyn  (in this order)."""
    NPR, K = z3.Int("NP"), z3.Int("K")

    def arr(name, n):
        def mk(eng, st):
            v = eng.fresh(T.arr(T.float), name, st)
            st.heap[v.addr].len = n
            return v
        return mk

    def mk_pm(eng, st):
        v = eng.fresh(T.arr2(T.float), "params_min", st)
        st.heap[v.addr].rows, st.heap[v.addr].cols = NPR, K
        return v

    def requires(S, a):
        return [("sizes", z3.And(NPR >= 0, K >= 0))]

    def ensures(S, a, res):
        O = S.st.heap[S.var("out_arr").addr]
        PM = S.st.heap[a["params_min"].addr]
        r, c = z3.Int(fresh_name("r!sk")), z3.Int(fresh_name("c!sk"))
        g = lambda nm: as_float(S.seq(a[nm]).get(r))
        inr = z3.And(0 <= r, r < NPR)
        return [("one row per unique function of this rank, K + 4 columns", z3.And(O.rows == NPR, O.cols == K + 4)),
                ("column 0 is the description length", z3.Implies(inr, fsame(as_float(O.get(r, z3.IntVal(0))), g("DL_min")))),
                ("columns 1..K are the parameter columns", z3.Implies(z3.And(inr, 0 <= c, c < K), fsame(as_float(O.get(r, 1 + c)), as_float(PM.get(r, c))))),
                ("the last three columns are -logL, codelen, aifeyn", z3.Implies(inr, z3.And(fsame(as_float(O.get(r, K + 1)), g("negloglike_min")), fsame(as_float(O.get(r, K + 2)), g("codelen_min")),
                                                                                             fsame(as_float(O.get(r, K + 3)), g("aifeyn_min")))))]

    c = Contract("main", {"DL_min": arr("DL_min", NPR), "params_min": mk_pm, "negloglike_min": arr("negloglike_min", NPR), "codelen_min": arr("codelen_min", NPR),
                          "aifeyn_min": arr("aifeyn_min", NPR)}, requires=requires, ensures=ensures, region=region_r0_writer, raises=lambda S, a, e: z3.BoolVal(False))
    c.region_name = "R0 writer: layout of the per-rank table"
    return c


def r0_reader_contract():
    """rank 0 reads the joined table back with the same column layout (K = number of parameter columns of the match table)."""
    NR, K = z3.Int("NR"), z3.Int("K")
    FILE = z3.Function("combine_table", z3.IntSort(), z3.IntSort(), z3.RealSort())

    def setup(eng, st, args):
        eng.models["np.genfromtxt"] = lambda e, s, a, k, node: s.alloc(H2D(NR, K + 4, lambda r, c: VFloat(FILE(r, c)), etype=T.real))
        from pyvc.values import HObj
        st.env["likelihood"] = st.alloc(HObj("Likelihood", {"out_dir": VLabel(z3.Const("out_dir", Label))}))
        st.env["prefix"] = VLabel(z3.Const("prefix", Label))
        st.env["comp"] = VInt(z3.Int("comp"))
        pr = eng.fresh(T.arr2(T.real), "params", st)
        st.heap[pr.addr].cols = K
        st.env["params"] = pr
        st.assume(z3.And(NR >= 2, K >= 0))

    def ensures(S, a, res):
        st = S.st
        r, c = z3.Int(fresh_name("r!sk")), z3.Int(fresh_name("c!sk"))
        inr = z3.And(0 <= r, r < NR)
        PM = st.heap[S.var("params_min").addr]
        g = lambda nm: as_float(S.seq(S.var(nm)).get(r)).val
        return [("one entry per row of the table", z3.And(S.seq(S.var("DL_min")).len == NR, PM.rows == NR, PM.cols == K)),
                ("DL = column 0, parameters = columns 1..K, -logL / codelen / aifeyn = the last three columns",
                 z3.Implies(inr, z3.And(g("DL_min") == FILE(r, z3.IntVal(0)), z3.Implies(z3.And(0 <= c, c < K), as_float(PM.get(r, c)).val == FILE(r, 1 + c)),
                                        g("negloglike_min") == FILE(r, K + 1), g("codelen_min") == FILE(r, K + 2), g("aifeyn_min") == FILE(r, K + 3))))]

    c = Contract("main", {}, ensures=ensures, setup=setup, region=region_r0_reader, raises=lambda S, a, e: z3.BoolVal(False))
    c.region_name = "R0 reader: layout of the joined table"
    return c


# ------------------------------------------------------------ R4: the rows of final_<n>.dat
def region_r4(fnode):
    """body of the loop that writes one row of the final table per sorted entry"""
    for s in ast.walk(fnode):
        if isinstance(s, ast.For) and any(isinstance(n, ast.Call) and getattr(n.func, "attr", None) == "writerow" for n in ast.walk(s)):
            return s.body
    return None


def r4_contract():
    """Iteration i appends exactly one row to final_<n>.dat: rank i, then function, description length, relative probability, -logL, codelen, aifeyn and the
    parameter columns of the SAME sorted position i (consecutive ranks from 0 in the order of the sorted description lengths)."""
    NS, K = z3.Int("nsorted"), z3.Int("K")

    def arr(name, etype=T.float):
        def mk(eng, st):
            v = eng.fresh(T.arr(etype) if etype.kind != "label" else T.list(etype), name, st)
            st.heap[v.addr].len = NS
            return v
        return mk

    def mk_ps(eng, st):
        v = eng.fresh(T.arr2(T.float), "params_sort", st)
        st.heap[v.addr].rows, st.heap[v.addr].cols = NS, K
        return v

    def setup(eng, st, args):
        from pyvc.values import HObj, VFn, Fn
        st.env["likelihood"] = st.alloc(HObj("Likelihood", {"out_dir": VLabel(z3.Const("out_dir", Label)), "final_prefix": VLabel(z3.Const("final_prefix", Label))}))
        st.env["comp"] = VInt(z3.Int("comp"))
        st.env["Nfuncs"] = VInt(10)
        pr = eng.fresh(T.arr2(T.real), "params", st)
        st.heap[pr.addr].cols = K
        st.env["params"] = pr
        st.env["ptab"] = st.alloc(HObj("PrettyTable", {}))
        eng.methods["add_row"] = lambda e, s, recv, a, k, node: __import__("pyvc.values", fromlist=["VNone"]).VNone()

    def requires(S, a):
        return [("0 <= i < number of sorted rows", z3.And(0 <= a["i"].t, a["i"].t < NS, K >= 0))]

    def ensures(S, a, res):
        st = S.st
        i = a["i"].t
        wr = st.ghost.get("written", ())
        rows = st.ghost.get("csv_rows", ())
        out = [("exactly one row is appended to exactly one file", z3.BoolVal(len(rows) == 1 and len(wr) == 1 and wr[0][1] == "a")),
               ("... as one line", (wr[0][2] == 1) if len(wr) == 1 else z3.BoolVal(False))]
        if len(rows) != 1:
            return out
        R = st.heap[rows[0].addr]
        if not (R.note and R.note[0] == "listconcat"):
            return out + [("the row is the seven leading fields followed by the parameter columns", z3.BoolVal(False))]
        head, tail = R.note[1], R.note[2]
        j = z3.Int(fresh_name("j!sk"))
        PS = st.heap[a["params_sort"].addr]
        f = lambda nm: S.seq(a[nm]).get(i)
        out += [("seven leading fields then one field per parameter column", z3.And(head.len == 7, tail.len == K)),
                ("field 0 is the rank i (consecutive ranks from 0)", head.get(z3.IntVal(0)).t == i),
                ("field 1 is the function of sorted position i", head.get(z3.IntVal(1)).t == f("fcn_min_sort").t),
                ("fields 2-6 are DL, Prel, -logL, codelen, aifeyn of sorted position i",
                 z3.And(fsame(as_float(head.get(z3.IntVal(2))), as_float(f("DL_sort"))), fsame(as_float(head.get(z3.IntVal(3))), as_float(f("Prel"))),
                        fsame(as_float(head.get(z3.IntVal(4))), as_float(f("negloglike_sort"))), fsame(as_float(head.get(z3.IntVal(5))), as_float(f("codelen_sort"))),
                        fsame(as_float(head.get(z3.IntVal(6))), as_float(f("aifeyn_sort"))))),
                ("the parameter fields are row i of the sorted parameter table", z3.Implies(z3.And(0 <= j, j < K), fsame(as_float(tail.get(j)), as_float(PS.get(i, j)))))]
        return out

    c = Contract("main", {"i": T.int, "DL_sort": arr("DL_sort"), "Prel": arr("Prel"), "negloglike_sort": arr("negloglike_sort"), "codelen_sort": arr("codelen_sort"),
                          "aifeyn_sort": arr("aifeyn_sort"), "fcn_min_sort": arr("fcn_min_sort", T.label), "params_sort": mk_ps},
                 requires=requires, ensures=ensures, setup=setup, region=region_r4, raises=lambda S, a, e: z3.BoolVal(False))
    c.region_name = "R4: one row of the final table per sorted entry"
    return c
