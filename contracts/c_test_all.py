"""Sidecar contracts for esr/fitting/test_all.py."""
import ast
import z3
from pyvc.engine import Contract, LoopSpec
from pyvc.values import T, VInt, VTuple, VLabel, VBool, HObj, Label, Unsupported, fresh_name
from pyvc import taint

NLS = z3.Function("NLS", z3.IntSort(), z3.IntSort(), z3.IntSort())   # lines per rank: a function of (N, P) only


def mk_likelihood(eng, st):
    f = {k: VLabel(z3.Const("lik." + k, Label)) for k in ("fn_dir", "base_out_dir", "out_dir", "temp_dir")}
    return st.alloc(HObj("Likelihood", f))


def slice_start(N, P, r):
    return r * NLS(N, P)


def slice_end(N, P, r):
    return z3.If(r == P - 1, N, (r + 1) * NLS(N, P))


def get_functions_contract(eng):
    """Slices of the fitting stages.  The number of lines per rank is computed by deterministic code
    from rank-invariant values only (checked by the taint analysis at the hook), so it is the
    same number NLS(N, P) on every rank; the contract then pins the slice of the symbolic rank."""
    fnode = eng.find_function("get_functions")

    def requires(S, a):
        r, P = S.var("rank").t, S.var("size").t
        return [("P >= 1", P >= 1), ("0 <= rank < P", z3.And(0 <= r, r < P))]

    def while_inv(S, st):
        n = S.i(S.var("nLs"))
        return [("nLs >= 0", n >= 0)]

    def while_dec(S, st):
        return S.i(S.var("nLs"))

    def hook_data_start(S, st):
        variant = taint.variant_names(fnode, seeds=("rank",))
        ok = not ("nLs" in variant or "fcn_list" in variant)
        S.eng.oblige(st, "lines-per-rank and the function list are computed from rank-invariant values only",
                     z3.BoolVal(ok), "spmd", None, "rank-invariance (taint analysis)")
        N, P = S.len(S.var("fcn_list")), S.var("size").t
        st.ghost["N"] = N
        if ok:
            st.assume(S.i(S.var("nLs")) == NLS(N, P))

    def ensures(S, a, res):
        if not (isinstance(res, VTuple) and len(res.items) == 3):
            raise Unsupported("get_functions no longer returns a triple")
        r, P = S.var("rank").t, S.var("size").t
        N = S.st.ghost.get("N")
        if N is None:
            raise Unsupported("hook on data_start did not run")
        lst, s, e = res.items
        s, e = S.i(s), S.i(e)
        k = z3.Int("k!gf")
        full = S.var("fcn_list")
        out = [
            ("lines per rank is non-negative and (P-1) blocks fit: 0 <= NLS and NLS*(P-1) <= N",
             z3.And(NLS(N, P) >= 0, NLS(N, P) * (P - 1) <= N)),
            ("data_start = rank * NLS(N,P)", s == slice_start(N, P, r)),
            ("data_end = (rank+1) * NLS(N,P), or N on the last rank", e == slice_end(N, P, r)),
            ("0 <= data_start <= data_end <= N", z3.And(0 <= s, s <= e, e <= N)),
            ("returned list is fcn_list[data_start:data_end]",
             z3.And(S.len(lst) == e - s,
                    z3.ForAll([k], z3.Implies(z3.And(0 <= k, k < e - s), S.get(lst, k).t == S.get(full, s + k).t)))),
        ]
        # directory protocol: every mkdir is executed by rank 0 only; a barrier separates it from any use
        effs = S.st.ghost.get("effects", [])
        for kind, arg, pc, line in effs:
            if kind in ("mkdir",):
                out.append(("os.mkdir at line %d is executed by a single rank (rank 0)" % line,
                            z3.Implies(z3.And(pc) if pc else z3.BoolVal(True), r == 0)))
        mk = [i for i, e_ in enumerate(effs) if e_[0] == "mkdir"]
        bar = [i for i, e_ in enumerate(effs) if e_[0] == "collective:Barrier"]
        opn = [i for i, e_ in enumerate(effs) if e_[0].startswith("open:")]
        out.append(("a barrier separates directory creation from the first file access",
                    z3.BoolVal(bool(bar) and (not opn or min(bar) < min(opn)) and (not mk or max(mk) < min(bar)))))
        return out

    def raises(S, a, exc):
        return z3.BoolVal(False)

    return Contract("get_functions",
                    {"comp": T.int, "likelihood": mk_likelihood, "unique": (T.bool, VBool(True))},
                    requires=requires, ensures=ensures, raises=raises,
                    globals_={"rank": lambda e, s: VInt(z3.Int("rank")), "size": lambda e, s: VInt(z3.Int("size"))},
                    loops={1: LoopSpec(while_inv, decreases=while_dec)},
                    hooks={"data_start": hook_data_start})


def tiling_lemmas():
    """From the per-rank contract to the property: the slices tile 0..N-1 in rank order."""
    N, P, r = z3.Ints("N P r")
    k = NLS(N, P)
    pre = z3.And(N >= 0, P >= 1, k >= 0, k * (P - 1) <= N)
    return [
        ("first slice starts at 0", z3.Implies(pre, slice_start(N, P, z3.IntVal(0)) == 0)),
        ("last slice ends at N", z3.Implies(pre, slice_end(N, P, P - 1) == N)),
        ("slices are contiguous: end(r) = start(r+1)",
         z3.Implies(z3.And(pre, 0 <= r, r < P - 1), slice_end(N, P, r) == slice_start(N, P, r + 1))),
        ("slices are well formed: start(r) <= end(r)",
         z3.Implies(z3.And(pre, 0 <= r, r < P), slice_start(N, P, r) <= slice_end(N, P, r))),
    ]
