"""Sidecar contracts for esr/fitting/test_all.py."""
import ast
import z3
from pyvc.engine import Contract, LoopSpec
from pyvc.values import T, VInt, VTuple, VLabel, VBool, HObj, Label, Unsupported, fresh_name
from pyvc import taint

NLS = z3.Function("NLS", z3.IntSort(), z3.IntSort(), z3.IntSort())   # lines per rank: a function of (N, P) only


def mk_likelihood(eng, st):
    f = {k: VLabel(z3.Const("lik." + k, Label)) for k in ("fn_dir", "base_out_dir", "out_dir", "temp_dir")}
    return st.alloc(HObj("Likelihood", f))


def slice_start(N, P, r):
    return r * NLS(N, P)


def slice_end(N, P, r):
    return z3.If(r == P - 1, N, (r + 1) * NLS(N, P))


def get_functions_contract(eng):
    """Slices of the fitting stages.  The number of lines per rank is computed by deterministic code
    from rank-invariant values only (checked by the taint analysis at the hook), so it is the
    same number NLS(N, P) on every rank; the contract then pins the slice of the symbolic rank."""
    fnode = eng.find_function("get_functions")

    def requires(S, a):
        r, P = S.var("rank").t, S.var("size").t
        return [("P >= 1", P >= 1), ("0 <= rank < P", z3.And(0 <= r, r < P))]

    def while_inv(S, st):
        n = S.i(S.var("nLs"))
        return [("nLs >= 0", n >= 0)]

    def while_dec(S, st):
        return S.i(S.var("nLs"))

    def hook_data_start(S, st):
        variant = taint.variant_before(fnode, lambda n: isinstance(n, ast.Assign) and isinstance(n.targets[0], ast.Name) and n.targets[0].id == "data_start")
        ok = variant is not None and not ("nLs" in variant or "fcn_list" in variant)
        S.eng.oblige(st, "lines-per-rank and the function list are computed from rank-invariant values only",
                     z3.BoolVal(ok), "spmd", None, "rank-invariance (taint analysis)")
        N, P = S.len(S.var("fcn_list")), S.var("size").t
        st.ghost["N"] = N
        if ok:
            st.assume(S.i(S.var("nLs")) == NLS(N, P))

    def ensures(S, a, res):
        if not (isinstance(res, VTuple) and len(res.items) == 3):
            raise Unsupported("get_functions no longer returns a triple")
        r, P = S.var("rank").t, S.var("size").t
        N = S.st.ghost.get("N")
        if N is None:
            raise Unsupported("hook on data_start did not run")
        lst, s, e = res.items
        s, e = S.i(s), S.i(e)
        k = z3.Int("k!gf")
        full = S.var("fcn_list")
        out = [
            ("lines per rank is non-negative and (P-1) blocks fit: 0 <= NLS and NLS*(P-1) <= N",
             z3.And(NLS(N, P) >= 0, NLS(N, P) * (P - 1) <= N)),
            ("data_start = rank * NLS(N,P)", s == slice_start(N, P, r)),
            ("data_end = (rank+1) * NLS(N,P), or N on the last rank", e == slice_end(N, P, r)),
            ("0 <= data_start <= data_end <= N", z3.And(0 <= s, s <= e, e <= N)),
            ("returned list is fcn_list[data_start:data_end]",
             z3.And(S.len(lst) == e - s,
                    z3.ForAll([k], z3.Implies(z3.And(0 <= k, k < e - s), S.get(lst, k).t == S.get(full, s + k).t)))),
        ]
        # directory protocol: every mkdir is executed by rank 0 only; a barrier separates it from any use
        effs = S.st.ghost.get("effects", [])
        for kind, arg, pc, line in effs:
            if kind in ("mkdir",):
                out.append(("os.mkdir at line %d is executed by a single rank (rank 0)" % line,
                            z3.Implies(z3.And(pc) if pc else z3.BoolVal(True), r == 0)))
        mk = [i for i, e_ in enumerate(effs) if e_[0] == "mkdir"]
        bar = [i for i, e_ in enumerate(effs) if e_[0] == "collective:Barrier"]
        opn = [i for i, e_ in enumerate(effs) if e_[0].startswith("open:")]
        out.append(("a barrier separates directory creation from the first file access",
                    z3.BoolVal(bool(bar) and (not opn or min(bar) < min(opn)) and (not mk or max(mk) < min(bar)))))
        return out

    def raises(S, a, exc):
        return z3.BoolVal(False)

    return Contract("get_functions",
                    {"comp": T.int, "likelihood": mk_likelihood, "unique": (T.bool, VBool(True))},
                    requires=requires, ensures=ensures, raises=raises,
                    globals_={"rank": lambda e, s: VInt(z3.Int("rank")), "size": lambda e, s: VInt(z3.Int("size"))},
                    loops={1: LoopSpec(while_inv, decreases=while_dec)},
                    hooks={"data_start": hook_data_start})


def tiling_lemmas():
    """From the per-rank contract to the property: the slices tile 0..N-1 in rank order."""
    N, P, r = z3.Ints("N P r")
    k = NLS(N, P)
    pre = z3.And(N >= 0, P >= 1, k >= 0, k * (P - 1) <= N)
    return [
        ("first slice starts at 0", z3.Implies(pre, slice_start(N, P, z3.IntVal(0)) == 0)),
        ("last slice ends at N", z3.Implies(pre, slice_end(N, P, P - 1) == N)),
        ("slices are contiguous: end(r) = start(r+1)",
         z3.Implies(z3.And(pre, 0 <= r, r < P - 1), slice_end(N, P, r) == slice_start(N, P, r + 1))),
        ("slices are well formed: start(r) <= end(r)",
         z3.Implies(z3.And(pre, 0 <= r, r < P), slice_start(N, P, r) <= slice_end(N, P, r))),
    ]


# ---------------------------------------------------------------------------------- chi2_fcn (C10)
NLLP_v = z3.Function("NLL.val", z3.ArraySort(z3.IntSort(), z3.RealSort()), z3.RealSort())


def chi2_fcn_contract(signs_none):
    """chi2_fcn evaluates the likelihood at p with p_i = x_i (sign None), 10**x_i ('+'), -10**x_i ('-'); with signs None at x itself."""
    from pyvc.values import VFloat, VRef, VMaybeNone, VNone, as_float, POW10, HObj, HSeq
    from pyvc import models as M
    from pyvc.engine import LoopSpec
    PLUS = lambda eng: eng.label_of("+")
    MINUS = lambda eng: eng.label_of("-")

    def mk_lik(eng, st):
        return st.alloc(HObj("Lik", {}))

    def mk_signs(eng, st):
        if signs_none:
            return VNone()
        return eng.fresh(T.list(T.opt(T.label)), "signs", st)

    def target(eng, sgn, xv):
        """transformed parameter (real) for sign sgn (VMaybeNone of label) and coordinate xv (real term)"""
        return z3.If(sgn.isnone, xv, z3.If(sgn.val.t == PLUS(eng), POW10(xv), -POW10(xv)))

    def setup(eng, st, args):
        def negloglike(eng_, st_, recv, a, kw, node):
            o = st_.heap[a[0].addr]
            g0 = o.get
            k = z3.Int("k!nll")
            if isinstance(g0(k), VMaybeNone):
                k1 = z3.Int(fresh_name("k!nn"))
                s2 = st_.fork()
                s2.pc = list(st_.pc) + [0 <= k1, k1 < o.len]
                eng_.oblige(s2, "every parameter passed to the likelihood is a number (no None left)", z3.Not(g0(k1).isnone), "safety", node)
                g = lambda q: g0(q).val
            else:
                g = g0
            A = M.named_array(eng_, z3.Lambda([k], as_float(g(k)).val), "P")
            st_.ghost["nll_arg"] = (A, o.len)
            return VFloat(NLLP_v(A))
        eng.methods["negloglike"] = negloglike

    def requires(S, a):
        out = []
        if not signs_none:
            out.append(("x has one coordinate per sign", S.len(a["x"]) == S.len(a["signs"])))
        return out

    def optval(v):
        if isinstance(v, VNone):
            return z3.BoolVal(True), z3.RealVal(0)
        if isinstance(v, VMaybeNone):
            return v.isnone, as_float(v.val).val
        return z3.BoolVal(False), as_float(v).val

    def inv(S, st):
        i = S.i(S.var("__i"))
        p, x, sg = S.seq(S.var("p")), S.seq(S.var("x")), S.seq(S.var("signs"))
        k = z3.Int("k!inv")
        return [("p has one slot per sign", p.len == sg.len),
                ("entries below i are the transformed coordinates",
                 z3.ForAll([k], z3.Implies(z3.And(0 <= k, k < i), z3.And(
                     z3.Not(optval(p.get(k))[0]), optval(p.get(k))[1] == target(S.eng, sg.get(k), x.get(k).val)))))]

    def ensures(S, a, res):
        eng, st = S.eng, S.st
        x = S.seq(a["x"])
        A, n = st.ghost.get("nll_arg", (None, None))
        if A is None:
            raise Unsupported("likelihood.negloglike is not called")
        k = z3.Int("k!ens")
        if signs_none:
            want = lambda q: x.get(q).val
        else:
            sg = S.seq(a["signs"])
            want = lambda q: target(eng, sg.get(q), x.get(q).val)
        return [("the likelihood is evaluated at the transformed parameters (x, 10**x or -10**x per sign) and its value returned",
                 z3.And(n == x.len, z3.ForAll([k], z3.Implies(z3.And(0 <= k, k < n), z3.Select(A, k) == want(k))),
                        isinstance(res, VFloat) and res.val == NLLP_v(A) or z3.BoolVal(False)))]

    def raises(S, a, exc):
        if signs_none or exc != "ValueError":
            return z3.BoolVal(False)
        sg = S.seq(a["signs"])
        k = z3.Int("k!r")
        eng = S.eng
        return z3.Exists([k], z3.And(0 <= k, k < sg.len, z3.Not(sg.get(k).isnone), sg.get(k).val.t != PLUS(eng), sg.get(k).val.t != MINUS(eng)))

    havoc_types = {"p": T.list(T.opt(T.real))}
    return Contract("chi2_fcn", {"x": T.arr(T.real), "likelihood": mk_lik, "eq_numpy": T.fn, "integrated": T.bool, "signs": mk_signs},
                    requires=requires, ensures=ensures, raises=raises, setup=setup,
                    loops={0: LoopSpec(inv, havoc_types=havoc_types)})


# ------------------------------------------------------------------- optimise_fun: selection and back-transformation (C10)
def region_optimise(fnode):
    """from `chi2_min = np.inf` (the reset before the multi-start loop) to `chi2_i = chi2_min`, inside the try body"""
    for n in ast.walk(fnode):
        if isinstance(n, ast.Try):
            body = n.body
            start = end = None
            for k, s_ in enumerate(body):
                if isinstance(s_, ast.Assign) and isinstance(s_.targets[0], ast.Name) and s_.targets[0].id == "chi2_min" and start is None:
                    start = k
                if isinstance(s_, ast.Assign) and isinstance(s_.targets[0], ast.Name) and s_.targets[0].id == "chi2_i" and \
                        isinstance(s_.value, ast.Name) and s_.value.id == "chi2_min":
                    end = k
            if start is not None and end is not None and end > start:
                return body[start:end + 1]
    return None


def optimise_region_contract():
    """Whatever the multi-start loop does, what it hands back is consistent: if a finite best value was found, the parameters
    returned are exactly the point at which the optimiser evaluated the likelihood for the selected result -- x itself in linear
    mode, (+/-)10**x with the signs of the branch that produced the selected result in log mode, zero padded -- so the
    likelihood at the returned parameters is the returned value; the selected branch of each log-mode start is one with the
    smallest value among the sign branches tried.  scipy's minimize is opaque: it returns (fun, x, success) with
    fun = chi2_fcn(x, ..., signs) (its documented contract; chi2_fcn itself is verified separately)."""
    from pyvc.engine import LoopSpec
    from pyvc.values import VFloat, VRef, VNone, VStr, VTuple, VBool, HObj, HSeq, as_float, POW10, fle, flt, fsame
    from pyvc import models as M
    NLLv = z3.Function("NLLP.val", M.RealArr, z3.RealSort())
    NLLi = z3.Function("NLLP.inf", M.RealArr, z3.BoolSort())
    NP, MAXP = z3.Int("nparam"), z3.Int("max_param")
    RES_T = T("obj", "OptimizeResult", (("fun", T.float), ("x", T.arr(T.real)), ("success", T.bool), ("lin", T.bool), ("sg0", T.int), ("sg1", T.int)))

    def point(o):
        """meta-level: the parameter vector at which the likelihood was evaluated for result object o"""
        xg = o.fields["x"]
        lin, s0, s1 = o.fields["lin"].t, o.fields["sg0"].t, o.fields["sg1"].t
        return lambda eng, st: (lambda k: z3.If(lin, st.heap[xg.addr].get(k).val,
                                                z3.ToReal(z3.If(k == 0, s0, z3.If(k == 1, s1, 1))) * POW10(st.heap[xg.addr].get(k).val)))

    def res_ok(eng, st, o):
        """the contract of minimize for result object o"""
        k = z3.Int("k!pt")
        f = point(o)(eng, st)
        A = M.named_array(eng, z3.Lambda([k], f(k)), "PT")
        fun = o.fields["fun"]
        xs = st.heap[o.fields["x"].addr]
        return z3.And(xs.len == NP, z3.Not(fun.nan), fun.inf == NLLi(A), z3.Implies(fun.inf, fun.pos), z3.Implies(z3.Not(fun.inf), fun.val == NLLv(A)),
                      z3.Or(o.fields["sg0"].t == 1, o.fields["sg0"].t == -1), z3.Or(o.fields["sg1"].t == 1, o.fields["sg1"].t == -1)), A

    def m_minimize(eng, st, args, kwargs, node):
        a = kwargs.get("args")
        if not (isinstance(a, VTuple) and len(a.items) == 4):
            raise Unsupported("minimize(...) without the four extra arguments of chi2_fcn")
        signs = a.items[3]
        o = st.heap[eng.fresh(RES_T, "res", st).addr]
        if isinstance(signs, VNone):
            o.fields["lin"] = VBool(True)
        else:
            so = st.heap[signs.addr]
            n_ = z3.simplify(so.len)
            if not z3.is_int_value(n_) or n_.as_long() not in (1, 2):
                raise Unsupported("sign list of unexpected length")
            vals = []
            for q in range(n_.as_long()):
                e = so.get(z3.IntVal(q))
                if not isinstance(e, VStr) or e.s not in "+-":
                    raise Unsupported("unexpected sign marker")
                vals.append(1 if e.s == "+" else -1)
            o.fields["lin"] = VBool(False)
            o.fields["sg0"] = VInt(vals[0])
            o.fields["sg1"] = VInt(vals[1] if len(vals) > 1 else 1)
            eng.oblige(st, "one sign per parameter in log mode", NP == n_.as_long(), "requires", node)
        o.ftypes = RES_T.args[1]
        ref = st.alloc(o)
        ok, A = res_ok(eng, st, o)
        st.assume(ok)
        return ref

    def m_uniform(eng, st, args, kwargs, node):
        return VFloat(z3.Real(fresh_name("u")))

    def m_argmin(eng, st, args, kwargs, node):
        o = st.heap[args[0].addr]
        n_ = z3.simplify(o.len)
        if not z3.is_int_value(n_):
            raise Unsupported("np.argmin of a list of symbolic length")
        xs = [as_float(o.get(z3.IntVal(q))) for q in range(n_.as_long())]
        idx, cur = z3.IntVal(0), xs[0]
        for q in range(1, len(xs)):
            take = z3.And(z3.Not(cur.nan), z3.Or(xs[q].nan, flt(xs[q], cur)))      # numpy: the first NaN wins, else the first minimum
            idx = z3.If(take, q, idx)
            from pyvc.values import ite
            cur = ite(take, xs[q], cur)
        return VInt(idx)

    def arr(name, etype, n):
        def mk(eng, st):
            v = eng.fresh(T.arr(etype), name, st)
            st.heap[v.addr].len = n
            return v
        return mk

    params = {"nparam": lambda e, s: VInt(NP), "max_param": lambda e, s: VInt(MAXP), "Niter": T.int, "Nconv": T.int, "log_opt": T.bool,
              "test_success": T.bool, "pmin": T.real, "pmax": T.real, "likelihood": T.fn, "eq_numpy": T.fn, "integrated": T.bool,
              "flag_three": lambda e, s: VBool(False), "count_lowest": lambda e, s: VInt(0), "inf_count": lambda e, s: VInt(0),
              "params": arr("params", T.real, MAXP), "mult_arr": arr("mult_arr", T.real, MAXP), "fcn_i": T.label}

    def setup(eng, st, args):
        eng.models["minimize"] = m_minimize
        eng.models["np.random.uniform"] = m_uniform
        eng.models["np.argmin"] = m_argmin

    def requires(S, a):
        k = z3.Int("k!rq")
        return [("1 <= nparam <= max_param", z3.And(NP >= 1, MAXP >= NP)),
                ("params starts as zeros and mult_arr as ones",
                 z3.ForAll([k], z3.Implies(z3.And(0 <= k, k < MAXP), z3.And(S.get(a["params"], k).val == 0, S.get(a["mult_arr"], k).val == 1))))]

    def linear_mode(S):
        return z3.Or(NP > 2, z3.Not(S.b(S.eng.args0["log_opt"])))

    def consistent(S, st):
        """best / mult_arr_best / flag_three describe one evaluation point"""
        o = st.heap[S.var("best").addr]
        ok, A = res_ok(S.eng, st, o)
        if "mult_arr_best" not in st.env:
            raise Unsupported("mult_arr_best is no longer maintained next to best")
        mb = S.seq(S.var("mult_arr_best"))
        k = z3.Int("k!cs")
        ft = S.b(S.var("flag_three"))
        signs_ok = z3.And(mb.len == MAXP, z3.ForAll([k], z3.Implies(z3.And(0 <= k, k < MAXP), z3.And(
            as_float(mb.get(k)).is_fin(),
            as_float(mb.get(k)).val == z3.ToReal(z3.If(k == 0, o.fields["sg0"].t, z3.If(k == 1, o.fields["sg1"].t, 1)))))))
        return z3.And(ok, o.fields["lin"].t == ft, ft == linear_mode(S), z3.Implies(z3.Not(ft), z3.And(signs_ok, NP <= 2)))

    def inv(S, st):
        cm = as_float(S.var("chi2_min"))
        out = [("chi2_min is never NaN", z3.Not(cm.nan)),
               ("flag_three is only ever set in linear mode, and is set from the start for more than two parameters",
                z3.And(z3.Implies(S.b(S.var("flag_three")), linear_mode(S)), z3.Implies(NP > 2, S.b(S.var("flag_three")))))]
        if "best" in st.env:
            bound = z3.Not(st.unbound["best"]) if "best" in st.unbound else z3.BoolVal(True)
            found = z3.Not(cm.is_pinf())
            o = st.heap[S.var("best").addr]
            out.append(("once a value below +inf was seen: best is bound, chi2_min is its value, and best / mult_arr_best / flag_three are consistent",
                        z3.Implies(found, z3.And(bound, fsame(cm, o.fields["fun"]), consistent(S, st)))))
        else:
            out.append(("before the first improvement chi2_min is +inf", cm.is_pinf()))
        return out

    def ensures(S, a, res):
        eng, st = S.eng, S.st
        cm = as_float(S.var("chi2_min"))
        ci = as_float(S.var("chi2_i"))
        P = S.seq(S.var("params"))
        k = z3.Int("k!en")
        good = flt(cm, VFloat(z3.RealVal("1e100")))
        out = [("the value handed back is chi2_min", fsame(ci, cm))]
        if "best" not in st.env:
            out.append(("no finite value without a best result", z3.Not(good)))
            return out
        o = st.heap[S.var("best").addr]
        f = point(o)(eng, st)
        PA = M.named_array(eng, z3.Lambda([k], z3.If(k < NP, as_float(P.get(k)).val, 0)), "PARAMS")
        ok, A = res_ok(eng, st, o)
        q = z3.Int(fresh_name("q!ext"))
        eng.axioms.append(z3.Implies(z3.ForAll([q], z3.Implies(z3.And(0 <= q, q < NP), z3.Select(A, q) == z3.Select(PA, q))),
                                     z3.And(NLLv(A) == NLLv(PA), NLLi(A) == NLLi(PA))))
        out.append(("a finite best value: the returned parameters are the point the optimiser evaluated for the selected result (x, or +/-10**x with that branch's signs), zero padded",
                    z3.Implies(good, z3.And(P.len == MAXP, z3.ForAll([k], z3.Implies(z3.And(0 <= k, k < MAXP), z3.And(
                        as_float(P.get(k)).is_fin(), as_float(P.get(k)).val == z3.If(k < NP, f(k), 0))))))))
        out.append(("a finite best value: the likelihood at the returned parameters is the returned value",
                    z3.Implies(good, z3.And(z3.Not(NLLi(PA)), ci.val == NLLv(PA)))))
        return out

    def hook_res(S, st, node):
        """`res = res_xx` in a log-mode start: the selected sign branch has the smallest value among the branches tried"""
        v = getattr(node, "value", None)
        if not (isinstance(node, ast.Assign) and isinstance(v, ast.Name)):
            return
        group = [g for g in (["res_pp", "res_mp", "res_pm", "res_mm"], ["res_p", "res_m"]) if v.id in g]
        if not group or not all(n_ in st.env for n_ in group[0]):
            return
        sel = st.heap[S.var(v.id).addr].fields["fun"]
        for other in group[0]:
            of = st.heap[S.var(other).addr].fields["fun"]
            S.eng.oblige(st, "the selected sign branch %s is not beaten by %s" % (v.id, other), z3.Or(of.nan, sel.nan, fle(sel, of)), "ensures", node,
                         "log mode: the selected sign branch has the smallest value among the branches tried")

    def hook_best(S, st, node):
        st.ghost = dict(st.ghost)
        st.ghost["old_min"] = as_float(S.var("chi2_min"))

    def hook_min(S, st, node):
        old = st.ghost.get("old_min")
        if old is None or not isinstance(getattr(node, "value", None), ast.Subscript):
            return
        new = as_float(S.var("chi2_min"))
        S.eng.oblige(st, "the running minimum only decreases", z3.Or(new.nan, old.nan, fle(new, old)), "ensures", node,
                     "chi2_min is a running minimum: an update never increases it")

    def loop_select(node):
        if isinstance(node, ast.For) and isinstance(node.target, ast.Name) and node.target.id == "j" and "Niter" in ast.dump(node.iter):
            ls = LoopSpec(inv, havoc_types={"best": RES_T, "res": RES_T, "mult_arr_best": T.arr(T.real), "mult_arr": T.arr(T.real),
                                            "flag_three": T.bool, "choose": T.int, "inpt": T.arr(T.real)})
            return ls
        return None

    c = Contract("optimise_fun", params, requires=requires, ensures=ensures, setup=setup, region=region_optimise,
                 raises=lambda S, a, e: z3.BoolVal(False), hooks={"res": hook_res, "best": hook_best, "chi2_min": hook_min})
    c.region_name = "multi-start loop, branch selection and back-transformation"
    c.loop_select = loop_select
    return c


# ---------------------------------------------------------------------- test_all.main: one result row per function (C14, C10)
def _main_rows_region_ta(fnode):
    import ast
    pre, body = [], None
    for s in fnode.body:
        if isinstance(s, ast.Assign) and len(s.targets) == 1 and isinstance(s.targets[0], ast.Name) and s.targets[0].id in ("max_param", "chi2", "params"):
            pre.append(s)
        if isinstance(s, ast.For) and any(isinstance(n, ast.Call) and getattr(n.func, "id", None) == "optimise_fun" for n in ast.walk(s)):
            body = s.body
            break
    if len(pre) != 3 or body is None:
        return None
    return pre + body


def main_rows_contract(variant):
    """test_all.main: entry i of chi2 and row i of params are the two results of ONE optimise_fun call for function i (variant ok), or NaN / a zero row
    when the fit raises, times out or hits NameError without integration (variants exception / nameerror); other rows are untouched; the parameter table has
    max(4, floor((comp - 1) / 2)) columns, the number optimise_fun is told to return."""
    from pyvc.models import PyRaise
    from pyvc.values import VTuple, VFloat, HSeq, H2D, VBool, VLabel, Label, fresh_name, as_float, fsame
    NP = z3.Int("NP")
    OFc = z3.Function("OF.chi2", z3.IntSort(), z3.RealSort())
    OFcn = z3.Function("OF.chi2.nan", z3.IntSort(), z3.BoolSort())
    OFci = z3.Function("OF.chi2.inf", z3.IntSort(), z3.BoolSort())
    OFp = z3.Function("OF.params", z3.IntSort(), z3.IntSort(), z3.RealSort())

    def mk_fl(eng, st):
        v = eng.fresh(T.list(T.label), "fcn_list_proc", st)
        st.heap[v.addr].len = NP
        return v

    def optimise_fun_contract():
        def returns(eng, st, a):
            if variant == "nameerror":
                raise PyRaise("NameError")
            if variant == "exception":
                raise PyRaise("TimeoutException")
            i = st.env["i"].t
            mp = a["max_param"].t
            return VTuple([VFloat(OFc(i), nan=OFcn(i), inf=OFci(i), pos=True), st.alloc(HSeq(mp, lambda c: VFloat(OFp(i, c)), numpy=True, etype=T.real))])

        def requires(S, a):
            return [("optimise_fun is asked for as many parameters as the table has columns", a["max_param"].t == S.var("max_param").t),
                    ("the function fitted in iteration i is function i of this rank", a["fcn_i"].t == S.seq(S.var("fcn_list_proc")).get(S.var("i").t).t)]
        names = ["fcn_i", "likelihood", "tmax", "pmin", "pmax", "comp", "try_integration", "log_opt", "max_param", "Niter_params", "Nconv_params", "ignore_previous_eqns"]
        params = {n: T.fn for n in names}
        params.update({"fcn_i": T.label, "max_param": T.int})
        return Contract("optimise_fun", params, requires=requires, returns=returns)

    def setup(eng, st, args):
        eng.contracts["optimise_fun"] = optimise_fun_contract()
        for nm in ("likelihood", "tmax", "pmin", "pmax", "log_opt", "Niter_params", "Nconv_params", "ignore_previous_eqns"):
            st.env[nm] = __import__("pyvc.values", fromlist=["VFn"]).VFn(z3.Const("arg." + nm, __import__("pyvc.values", fromlist=["Fn"]).Fn))
        st.env["try_integration"] = VBool(False)
        st.env["rank"] = VInt(z3.Int("rank"))
        st.env["print_frequency"] = VInt(z3.Int("print_frequency"))
        st.env["comp"] = VInt(z3.Int("comp"))
        eng.models["np.floor"] = eng.models.get("np.floor")

    def requires(S, a):
        return [("sizes", z3.And(NP >= 1, 0 <= a["i"].t, a["i"].t < NP, z3.Int("print_frequency") >= 1, z3.Int("comp") >= 1))]

    def ensures(S, a, res):
        st = S.st
        i = a["i"].t
        for nm in ("chi2", "params", "max_param"):
            if nm not in st.env:
                return [("the per-rank tables are allocated", z3.BoolVal(False))]
        C, P = S.seq(S.var("chi2")), st.heap[S.var("params").addr]
        mp = S.var("max_param").t
        r, c = z3.Int(fresh_name("r!sk")), z3.Int(fresh_name("c!sk"))
        comp = z3.Int("comp")
        out = [("one likelihood entry and one parameter row per function of this rank; max(4, floor((comp - 1) / 2)) parameter columns",
                z3.And(C.len == NP, P.rows == NP, P.cols == mp, mp >= 4, 2 * mp + 2 > comp - 1, z3.Or(mp == 4, 2 * mp <= comp - 1))),
               ("rows other than i are untouched", z3.Implies(z3.And(0 <= r, r < NP, r != i, 0 <= c, c < mp),
                                                            z3.And(as_float(C.get(r)).is_fin(), as_float(C.get(r)).val == 0, as_float(P.get(r, c)).val == 0)))]
        ci = as_float(C.get(i))
        if variant == "ok":
            out.append(("entry i and row i are the two results of one optimise_fun call for function i",
                        z3.And(fsame(ci, VFloat(OFc(i), nan=OFcn(i), inf=OFci(i), pos=True)), z3.Implies(z3.And(0 <= c, c < mp), as_float(P.get(i, c)).val == OFp(i, c)))))
        else:
            out.append(("a fit that raises or times out is recorded as NaN with a zero parameter row", z3.And(ci.nan, z3.Implies(z3.And(0 <= c, c < mp), as_float(P.get(i, c)).val == 0))))
        return out

    c = Contract("main", {"fcn_list_proc": mk_fl, "i": T.int}, requires=requires, ensures=ensures, setup=setup, region=_main_rows_region_ta,
                 raises=lambda S, a, e: z3.BoolVal(False))
    c.region_name = "rows: one result row per function (%s)" % variant
    return c
