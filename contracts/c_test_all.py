"""Sidecar contracts for esr/fitting/test_all.py."""
import ast
import z3
from pyvc.engine import Contract, LoopSpec
from pyvc.values import T, VInt, VTuple, VLabel, VBool, HObj, Label, Unsupported, fresh_name
from pyvc import taint

NLS = z3.Function("NLS", z3.IntSort(), z3.IntSort(), z3.IntSort())   # lines per rank: a function of (N, P) only


def mk_likelihood(eng, st):
    f = {k: VLabel(z3.Const("lik." + k, Label)) for k in ("fn_dir", "base_out_dir", "out_dir", "temp_dir")}
    return st.alloc(HObj("Likelihood", f))


def slice_start(N, P, r):
    return r * NLS(N, P)


def slice_end(N, P, r):
    return z3.If(r == P - 1, N, (r + 1) * NLS(N, P))


def get_functions_contract(eng):
    """Slices of the fitting stages.  The number of lines per rank is computed by deterministic code
    from rank-invariant values only (checked by the taint analysis at the hook), so it is the
    same number NLS(N, P) on every rank; the contract then pins the slice of the symbolic rank."""
    fnode = eng.find_function("get_functions")

    def requires(S, a):
        r, P = S.var("rank").t, S.var("size").t
        return [("P >= 1", P >= 1), ("0 <= rank < P", z3.And(0 <= r, r < P))]

    def while_inv(S, st):
        n = S.i(S.var("nLs"))
        return [("nLs >= 0", n >= 0)]

    def while_dec(S, st):
        return S.i(S.var("nLs"))

    def hook_data_start(S, st):
        variant = taint.variant_before(fnode, lambda n: isinstance(n, ast.Assign) and isinstance(n.targets[0], ast.Name) and n.targets[0].id == "data_start")
        ok = variant is not None and not ("nLs" in variant or "fcn_list" in variant)
        S.eng.oblige(st, "lines-per-rank and the function list are computed from rank-invariant values only",
                     z3.BoolVal(ok), "spmd", None, "rank-invariance (taint analysis)")
        N, P = S.len(S.var("fcn_list")), S.var("size").t
        st.ghost["N"] = N
        if ok:
            st.assume(S.i(S.var("nLs")) == NLS(N, P))

    def ensures(S, a, res):
        if not (isinstance(res, VTuple) and len(res.items) == 3):
            raise Unsupported("get_functions no longer returns a triple")
        r, P = S.var("rank").t, S.var("size").t
        N = S.st.ghost.get("N")
        if N is None:
            raise Unsupported("hook on data_start did not run")
        lst, s, e = res.items
        s, e = S.i(s), S.i(e)
        k = z3.Int("k!gf")
        full = S.var("fcn_list")
        out = [
            ("lines per rank is non-negative and (P-1) blocks fit: 0 <= NLS and NLS*(P-1) <= N",
             z3.And(NLS(N, P) >= 0, NLS(N, P) * (P - 1) <= N)),
            ("data_start = rank * NLS(N,P)", s == slice_start(N, P, r)),
            ("data_end = (rank+1) * NLS(N,P), or N on the last rank", e == slice_end(N, P, r)),
            ("0 <= data_start <= data_end <= N", z3.And(0 <= s, s <= e, e <= N)),
            ("returned list is fcn_list[data_start:data_end]",
             z3.And(S.len(lst) == e - s,
                    z3.ForAll([k], z3.Implies(z3.And(0 <= k, k < e - s), S.get(lst, k).t == S.get(full, s + k).t)))),
        ]
        # directory protocol: every mkdir is executed by rank 0 only; a barrier separates it from any use
        effs = S.st.ghost.get("effects", [])
        for kind, arg, pc, line in effs:
            if kind in ("mkdir",):
                out.append(("os.mkdir at line %d is executed by a single rank (rank 0)" % line,
                            z3.Implies(z3.And(pc) if pc else z3.BoolVal(True), r == 0)))
        mk = [i for i, e_ in enumerate(effs) if e_[0] == "mkdir"]
        bar = [i for i, e_ in enumerate(effs) if e_[0] == "collective:Barrier"]
        opn = [i for i, e_ in enumerate(effs) if e_[0].startswith("open:")]
        out.append(("a barrier separates directory creation from the first file access",
                    z3.BoolVal(bool(bar) and (not opn or min(bar) < min(opn)) and (not mk or max(mk) < min(bar)))))
        return out

    def raises(S, a, exc):
        return z3.BoolVal(False)

    return Contract("get_functions",
                    {"comp": T.int, "likelihood": mk_likelihood, "unique": (T.bool, VBool(True))},
                    requires=requires, ensures=ensures, raises=raises,
                    globals_={"rank": lambda e, s: VInt(z3.Int("rank")), "size": lambda e, s: VInt(z3.Int("size"))},
                    loops={1: LoopSpec(while_inv, decreases=while_dec)},
                    hooks={"data_start": hook_data_start})


def tiling_lemmas():
    """From the per-rank contract to the property: the slices tile 0..N-1 in rank order."""
    N, P, r = z3.Ints("N P r")
    k = NLS(N, P)
    pre = z3.And(N >= 0, P >= 1, k >= 0, k * (P - 1) <= N)
    return [
        ("first slice starts at 0", z3.Implies(pre, slice_start(N, P, z3.IntVal(0)) == 0)),
        ("last slice ends at N", z3.Implies(pre, slice_end(N, P, P - 1) == N)),
        ("slices are contiguous: end(r) = start(r+1)",
         z3.Implies(z3.And(pre, 0 <= r, r < P - 1), slice_end(N, P, r) == slice_start(N, P, r + 1))),
        ("slices are well formed: start(r) <= end(r)",
         z3.Implies(z3.And(pre, 0 <= r, r < P), slice_start(N, P, r) <= slice_end(N, P, r))),
    ]


# ---------------------------------------------------------------------------------- chi2_fcn (C10)
NLLP_v = z3.Function("NLL.val", z3.ArraySort(z3.IntSort(), z3.RealSort()), z3.RealSort())


def chi2_fcn_contract(signs_none):
    """chi2_fcn evaluates the likelihood at p with p_i = x_i (sign None), 10**x_i ('+'), -10**x_i ('-'); with signs None at x itself."""
    from pyvc.values import VFloat, VRef, VMaybeNone, VNone, as_float, POW10, HObj, HSeq
    from pyvc import models as M
    from pyvc.engine import LoopSpec
    PLUS = lambda eng: eng.label_of("+")
    MINUS = lambda eng: eng.label_of("-")

    def mk_lik(eng, st):
        return st.alloc(HObj("Lik", {}))

    def mk_signs(eng, st):
        if signs_none:
            return VNone()
        return eng.fresh(T.list(T.opt(T.label)), "signs", st)

    def target(eng, sgn, xv):
        """transformed parameter (real) for sign sgn (VMaybeNone of label) and coordinate xv (real term)"""
        return z3.If(sgn.isnone, xv, z3.If(sgn.val.t == PLUS(eng), POW10(xv), -POW10(xv)))

    def setup(eng, st, args):
        def negloglike(eng_, st_, recv, a, kw, node):
            o = st_.heap[a[0].addr]
            g0 = o.get
            k = z3.Int("k!nll")
            if isinstance(g0(k), VMaybeNone):
                k1 = z3.Int(fresh_name("k!nn"))
                s2 = st_.fork()
                s2.pc = list(st_.pc) + [0 <= k1, k1 < o.len]
                eng_.oblige(s2, "every parameter passed to the likelihood is a number (no None left)", z3.Not(g0(k1).isnone), "safety", node)
                g = lambda q: g0(q).val
            else:
                g = g0
            A = M.named_array(eng_, z3.Lambda([k], as_float(g(k)).val), "P")
            st_.ghost["nll_arg"] = (A, o.len)
            return VFloat(NLLP_v(A))
        eng.methods["negloglike"] = negloglike

    def requires(S, a):
        out = []
        if not signs_none:
            out.append(("x has one coordinate per sign", S.len(a["x"]) == S.len(a["signs"])))
        return out

    def optval(v):
        if isinstance(v, VNone):
            return z3.BoolVal(True), z3.RealVal(0)
        if isinstance(v, VMaybeNone):
            return v.isnone, as_float(v.val).val
        return z3.BoolVal(False), as_float(v).val

    def inv(S, st):
        i = S.i(S.var("__i"))
        p, x, sg = S.seq(S.var("p")), S.seq(S.var("x")), S.seq(S.var("signs"))
        k = z3.Int("k!inv")
        return [("p has one slot per sign", p.len == sg.len),
                ("entries below i are the transformed coordinates",
                 z3.ForAll([k], z3.Implies(z3.And(0 <= k, k < i), z3.And(
                     z3.Not(optval(p.get(k))[0]), optval(p.get(k))[1] == target(S.eng, sg.get(k), x.get(k).val)))))]

    def ensures(S, a, res):
        eng, st = S.eng, S.st
        x = S.seq(a["x"])
        A, n = st.ghost.get("nll_arg", (None, None))
        if A is None:
            raise Unsupported("likelihood.negloglike is not called")
        k = z3.Int("k!ens")
        if signs_none:
            want = lambda q: x.get(q).val
        else:
            sg = S.seq(a["signs"])
            want = lambda q: target(eng, sg.get(q), x.get(q).val)
        return [("the likelihood is evaluated at the transformed parameters (x, 10**x or -10**x per sign) and its value returned",
                 z3.And(n == x.len, z3.ForAll([k], z3.Implies(z3.And(0 <= k, k < n), z3.Select(A, k) == want(k))),
                        isinstance(res, VFloat) and res.val == NLLP_v(A) or z3.BoolVal(False)))]

    def raises(S, a, exc):
        if signs_none or exc != "ValueError":
            return z3.BoolVal(False)
        sg = S.seq(a["signs"])
        k = z3.Int("k!r")
        eng = S.eng
        return z3.Exists([k], z3.And(0 <= k, k < sg.len, z3.Not(sg.get(k).isnone), sg.get(k).val.t != PLUS(eng), sg.get(k).val.t != MINUS(eng)))

    havoc_types = {"p": T.list(T.opt(T.real))}
    return Contract("chi2_fcn", {"x": T.arr(T.real), "likelihood": mk_lik, "eq_numpy": T.fn, "integrated": T.bool, "signs": mk_signs},
                    requires=requires, ensures=ensures, raises=raises, setup=setup,
                    loops={0: LoopSpec(inv, havoc_types=havoc_types)})
