"""Sidecar contract for the guard of esr/fitting/match.py::main (C05): which variants are skipped with an infinite code length.

Region = the `if` statement of the loop body that tests the loaded chain of substitutions with isinstance(..., dict) and assigns
codelen[i] = np.inf.  A chain entry is an opaque object that either is a dict (a recoverable substitution) or is not (nan)."""
import ast
import z3
from pyvc.engine import Contract
from pyvc.values import T, VInt, VFloat, VConc, VNone, HSeq, Unsupported, fsame
from pyvc import models as M


def region_guard(fnode):
    for s in ast.walk(fnode):
        if isinstance(s, ast.If) and "isinstance" in ast.dump(s.test) and "all_inv_subs_proc" in ast.dump(s.test):
            if any(isinstance(b, ast.Assign) and "codelen" in ast.dump(b.targets[0]) for b in s.body):
                return [s]
    return None


def guard_contract():
    NP = z3.Int("NP")

    def mk_chains(eng, st):
        v = eng.fresh(T.list(T.list(T.fn)), "all_inv_subs_proc", st)
        st.heap[v.addr].len = NP
        return v

    def mk_codelen(eng, st):
        v = eng.fresh(T.arr(T.float), "codelen", st)
        st.heap[v.addr].len = NP
        st.ghost["codelen0"] = st.heap[v.addr]
        return v

    def requires(S, a):
        return [("0 <= i < NP", z3.And(0 <= a["i"].t, a["i"].t < NP))]

    def ensures(S, a, res):
        st = S.st
        i = a["i"].t
        chain = S.seq(S.get(a["all_inv_subs_proc"], i))
        k = z3.Int("k!g")
        unrec = z3.Exists([k], z3.And(0 <= k, k < chain.len, z3.Not(M.ISDICT(chain.get(k).t))))
        cl = S.seq(a["codelen"])
        skipped = z3.BoolVal(isinstance(res, VConc) and res.name == "continue")
        return [("a chain with an unrecoverable (non-dict) entry is skipped with an infinite code length", z3.Implies(unrec, z3.And(skipped, cl.get(i).is_pinf()))),
                ("a chain of recoverable substitutions (dicts only, any length) is NOT skipped and its code length is untouched here",
                 z3.Implies(z3.Not(unrec), z3.And(z3.Not(skipped), fsame(cl.get(i), st.ghost["codelen0"].get(i)))))]

    c = Contract("main", {"all_inv_subs_proc": mk_chains, "codelen": mk_codelen, "i": T.int},
                 requires=requires, ensures=ensures, region=region_guard, raises=lambda S, a, e: z3.BoolVal(False))
    c.region_name = "guard on the loaded chain"
    return c


# ----------------------------------------------------------------- match.main: snapping, code length, reported row (C05)
def region_first(fnode):
    r = region_snap(fnode)
    return r[:1] if r else None


def region_snap(fnode):
    """the statements of the loop body from `if np.sum(fish<=0)>0:` to the end of the body"""
    for s in ast.walk(fnode):
        if isinstance(s, ast.For) and any(isinstance(n, ast.Call) and getattr(n.func, "attr", None) == "convert_params" for n in ast.walk(s)):
            for k, b in enumerate(s.body):
                if isinstance(b, ast.If) and "fish" in ast.dump(b.test) and "LtE" in ast.dump(b.test):
                    return s.body[k:]
    return None


def snap_contract(variant):
    """Given the converted parameters p and the diagonal of the transformed Fisher matrix `fish` of variant i (both of length k0 >= 1) and
    the likelihood as an uninterpreted function NLL(function, parameter vector):

      finite    (the likelihood is finite at every parameter vector)
         some fish_j <= 0                      ->  code length +inf
         otherwise, with Nsteps_j = |p_j| / sqrt(12 / fish_j) and S = {j : Nsteps_j < 1}:
            reported parameters  = p with the entries in S set to zero, zero padded to max_param
            reported likelihood  = the unique function's if S is empty, else NLL(the variant's own function, snapped parameters)
            code length          = -(k/2) ln 3 + sum over j not in S of (1/2 ln fish_j + ln|p_j|),  k = k0 - |S|   (0 stays as initialised when k = 0)
      infinite  (the likelihood is +inf wherever it is re-evaluated: snapping is impossible)
            reported parameters  = the ORIGINAL p (nothing zeroed), zero padded;  reported likelihood = the unique function's;
            code length          = -(k0/2) ln 3 + sum over all j of (1/2 ln fish'_j + ln|p_j|) with fish'_j = 12 / p_j^2 for j in S.
    Rows other than i are not touched."""
    from pyvc.engine import LoopSpec
    from pyvc.values import (VFloat, VFn, VRef, VTuple, VBool, VLabel, HObj, H2D, Fn, Label, fresh_name, as_float, fsame, fdiv, fabs, fsqrt, flt, fle, LN)
    from pyvc.models import PyRaise, CNT, IDX, RNK
    NP, M, K0 = z3.Int("NP"), z3.Int("max_param"), z3.Int("nparams")
    NLLv = z3.Function("NLL.val", Fn, M_.RealArr, z3.RealSort())
    EQOF = z3.Function("eq_of", Label, Fn)
    LAM = z3.Function("lambdify", Fn, Fn)

    def arr(name, etype, n, ghost=None):
        def mk(eng, st):
            v = eng.fresh(T.arr(etype), name, st)
            st.heap[v.addr].len = n
            if ghost:
                st.ghost[ghost] = st.heap[v.addr]
            return v
        return mk

    def mk_params(eng, st):
        return st.alloc(H2D(NP, M, lambda r, c: VFloat(0), etype=T.float))

    def mk_like(eng, st):
        return st.alloc(HObj("Likelihood", {}))

    def run_sympify_contract():
        def returns(eng, st, a):
            f = a["fcn_i"]
            return VTuple([f, VFn(EQOF(f.t)), VFn(z3.Const("integrated", Fn))])
        return Contract("Likelihood.run_sympify", {"self": T.fn, "fcn_i": T.label, "tmax": (T.int, VInt(5)), "try_integration": (T.bool, VBool(False))}, returns=returns)

    def opaque(eng, st, fn, args, kwargs, node):
        # fop(p) / f1(p): likelihood.negloglike(p, eq_numpy, ...) with the eq_numpy bound in main's scope at the time of the call
        if "eq_numpy" not in st.env:
            raise PyRaise("NameError")
        en = st.env["eq_numpy"]
        o = st.heap[args[0].addr]
        k = z3.Int("k!nll")
        g = o.get
        A = M_.named_array(eng, z3.Lambda([k], as_float(g(k)).val), "TH")
        st.ghost.setdefault("nll_calls", []).append((en.t, A, o.len))
        if variant == "finite":
            return VFloat(NLLv(en.t, A))
        if variant == "any":
            return eng.fresh(T.float, "nll", st)
        return VFloat(0, inf=True, pos=True)

    def setup(eng, st, args):
        eng.opaque_call = opaque
        eng._sum_terms = []
        eng.contracts["Likelihood.run_sympify"] = run_sympify_contract()
        eng.models["sympy.lambdify"] = lambda e, s, a, k, n: VFn(LAM(a[1].t))
        for nm in ("x", "a0"):
            st.env[nm] = VFn(z3.Const("sym." + nm, Fn))
        st.env["rank"] = VInt(z3.Int("rank"))
        st.env["tmax"] = VInt(5)
        st.env["try_integration"] = VBool(False)
        st.env["max_param"], st.env["nparams"], st.env["k"] = VInt(M), VInt(K0), VInt(K0)
        st.ghost["fcn0"] = args["fcn_i"]
        st.ghost["nll0"] = st.heap[args["negloglike_all"].addr]
        st.ghost["cl0"] = st.heap[args["codelen"].addr]

    def requires(S, a):
        i = a["i"].t
        k = z3.Int("k!rq")
        p = S.seq(a["p"])
        out = [("sizes", z3.And(NP >= 1, 0 <= i, i < NP, K0 >= 1, M >= K0)),
               ("the likelihood copied from the unique function is finite (the loop skipped NaN/inf before)", S.get(a["negloglike_all"], i).is_fin())]
        if variant != "any":
            f0 = S.seq(a["fish"])
            out.append(("regular input: every diagonal entry of the transformed Fisher matrix is positive and finite",
                        z3.ForAll([k], z3.Implies(z3.And(0 <= k, k < K0), z3.And(f0.get(k).is_fin(), f0.get(k).val > 0)))))
        return out

    def nsteps(p0, f0):
        """the code's own formula: |p| / sqrt(12 / fish)  (Delta = inf where fish = 0, Nsteps = nan where Delta = 0)"""
        return lambda q: fdiv(fabs(p0.get(q)), fsqrt(fdiv(VFloat(12), f0.get(q))))

    def loop_select(node):
        # the subset search of the infinite-likelihood fallback: nothing is known about which subsets are tried; every evaluation is +inf
        def inv(S, st):
            i = S.eng.args0["i"].t
            nl = S.seq(S.eng.args0["negloglike_all"])
            out = []
            if variant == "infinite":
                out.append(("the likelihood entry of variant i stays +inf during the subset search", nl.get(i).is_pinf()))
            out.append(("array lengths are unchanged", z3.And(nl.len == NP, S.seq(S.eng.args0["codelen"]).len == NP)))
            if "ptrue" in st.env and isinstance(st.env["ptrue"], VRef):
                pt = S.seq(S.var("ptrue"))
                q = z3.Int("q!pt")
                out.append(("the saved parameters are untouched by the subset search", z3.And(pt.len == K0, z3.ForAll([q], z3.Implies(z3.And(0 <= q, q < K0), as_float(pt.get(q)).val == as_float(st.ghost["p0"].get(q)).val)))))
            if "p" in st.env and isinstance(st.env["p"], VRef):
                out.append(("the trial parameter vector has nparams entries", S.seq(S.var("p")).len == K0))
            if "try_idx" in st.env and isinstance(st.env["try_idx"], VRef):
                ti = S.seq(S.var("try_idx"))
                q2 = z3.Int("q!ti")
                out.append(("try_idx lists parameter positions", z3.ForAll([q2], z3.Implies(z3.And(0 <= q2, q2 < ti.len), z3.And(0 <= ti.get(q2).t, ti.get(q2).t < K0)))))
            return out + frame(S)
        ls = LoopSpec(inv, havoc_types={"p": T.arr(T.real), "idx": T.list(T.int), "idx_": T.int, "r": T.int})
        return ls

    def frame(S):
        st = S.st
        i = S.eng.args0["i"].t
        r = z3.Int("r!fr")
        nl, cl = S.seq(S.eng.args0["negloglike_all"]), S.seq(S.eng.args0["codelen"])
        return [("entries of other variants are untouched", z3.ForAll([r], z3.Implies(z3.And(0 <= r, r < NP, r != i), z3.And(fsame(nl.get(r), st.ghost["nll0"].get(r)),
                                                                                                                  fsame(cl.get(r), st.ghost["cl0"].get(r))))))]

    def ensures(S, a, res):
        eng, st = S.eng, S.st
        i = a["i"].t
        p0, f0 = st.ghost["p0"], st.ghost["f0"]
        cl, nl = S.seq(a["codelen"]), S.seq(a["negloglike_all"])
        P = st.heap[a["params"].addr]
        out = list(frame(S))
        kq = z3.Int("k!bad")
        bad = z3.Exists([kq], z3.And(0 <= kq, kq < K0, fle(f0.get(kq), VFloat(0))))
        ci = cl.get(i)
        out.append(("a non-positive diagonal entry of the transformed Fisher matrix gives an infinite code length", z3.Implies(bad, ci.is_pinf())))
        if variant == "any":
            skipped = z3.BoolVal(isinstance(res, VConc) and res.name == "continue")
            out.append(("the variant is skipped exactly when some diagonal entry is non-positive; otherwise nothing has changed yet",
                        z3.And(skipped == bad, z3.Implies(z3.Not(bad), fsame(ci, st.ghost["cl0"].get(i))))))
            return out
        N = nsteps(p0, f0)
        ONE = as_float(VInt(1))          # the engine's own rendering of the literal 1 in `Nsteps < 1` (keeps code and specification masks syntactically equal)
        snap = lambda q: flt(N(q), ONE)
        keep = lambda q: fle(ONE, N(q))
        smask = M_.mask_array(eng, st, snap)
        kmask = M_.mask_array(eng, st, keep)
        M_.filter_axioms(eng, smask, K0)
        M_.filter_axioms(eng, kmask, K0)
        nsnap = CNT(smask, K0)
        c = z3.Int(fresh_name("c!sk"))
        cin = z3.And(0 <= c, c < M)
        # all fish entries positive and finite, parameters non-zero where kept: the regular case of the property
        allpos = z3.ForAll([kq], z3.Implies(z3.And(0 <= kq, kq < K0), z3.And(f0.get(kq).is_fin(), f0.get(kq).val > 0)))
        good = z3.And(z3.Not(bad), allpos)
        absr = lambda t: z3.If(t < 0, -t, t)
        j = z3.Int("j!spec")
        if variant == "finite":
            want_p = lambda q: z3.If(z3.And(q < K0, z3.Not(snap(q))), as_float(p0.get(q)).val, 0)
            out.append(("reported parameters = converted parameters with every entry below one precision step set to zero, zero padded",
                        z3.Implies(z3.And(good, cin), z3.And(as_float(P.get(i, c)).is_fin(), as_float(P.get(i, c)).val == want_p(c)))))
            q = z3.Int("q!e")
            PA = M_.named_array(eng, z3.Lambda([q], want_p(q)), "POUT")
            lam0 = LAM(EQOF(st.ghost["fcn0"].t))
            for (en, A, n) in st.ghost.get("nll_calls", []):
                qq = z3.Int(fresh_name("q!ext"))
                eng.axioms.append(z3.Implies(z3.And(en == lam0, z3.ForAll([qq], z3.Implies(z3.And(0 <= qq, qq < K0), z3.Select(A, qq) == z3.Select(PA, qq)))),
                                             NLLv(en, A) == NLLv(lam0, PA)))
            out.append(("reported likelihood: the unique function's when nothing is snapped, else the likelihood of the variant's OWN function at the reported parameters",
                        z3.Implies(good, z3.And(nl.get(i).is_fin(), nl.get(i).val == z3.If(nsnap > 0, NLLv(lam0, PA), st.ghost["nll0"].get(i).val)))))
            fj = lambda jj: f0.get(IDX(kmask, K0, jj))
            tj = lambda jj: p0.get(IDX(kmask, K0, jj))
            spec_arr = M_.named_array(eng, z3.Lambda([j], LN(fj(j).val) / 2 + LN(absr(as_float(tj(j)).val))), "SPEC")
            m = CNT(kmask, K0)
            M_.complement_lemma(eng, smask, kmask, K0)
            kk = K0 - nsnap
            # the code's own masks (Nsteps < 1, Nsteps >= 1) are other array constants with the same entries: extensionality of the filter primitives
            for (A_, lam_) in list(eng._named.values()):
                if A_.sort() == M_.BoolArr and not A_.eq(smask) and not A_.eq(kmask):
                    M_.filter_ext(eng, A_, smask, K0)
                    M_.filter_ext(eng, A_, kmask, K0)
            nonzero0 = z3.ForAll([kq], z3.Implies(z3.And(0 <= kq, kq < K0, keep(kq)), as_float(p0.get(kq)).val != 0))
            for (arr_, nn) in getattr(eng, "_sum_terms", []):
                # the summands of the code's np.sum are the specification's, entry by entry (Skolem index, then generalised);
                # sum extensionality (lemma library): equal summands give equal sums
                q0 = z3.Int(fresh_name("q!sk"))
                eng.oblige(st, "lemma: the code sums exactly one term 1/2 ln fish_j + ln|p_j| per kept parameter",
                           z3.Implies(z3.And(good, nonzero0, kk != 0), z3.And(nn == m, z3.Implies(z3.And(0 <= q0, q0 < m), z3.Select(arr_, q0) == z3.Select(spec_arr, q0)))), "lemma", None)
                st.assume(z3.Implies(z3.And(good, nonzero0, kk != 0), z3.And(nn == m, M_.SUMR(arr_, m) == M_.SUMR(spec_arr, m))))
            eng.oblige(st, "lemma: the kept and the snapped parameters partition the parameters (Nsteps is never NaN on regular input)", nsnap + m == K0, "lemma", None)
            st.assume(nsnap + m == K0)
            kv = S.var("k").t
            eng.oblige(st, "lemma: the code's k is the number of kept parameters", z3.Implies(good, kv == kk), "lemma", None)
            st.assume(z3.Implies(good, kv == kk))
            nonzero = z3.ForAll([kq], z3.Implies(z3.And(0 <= kq, kq < K0, keep(kq)), as_float(p0.get(kq)).val != 0))
            out.append(("with nothing kept the code length stays at its initial value", z3.Implies(z3.And(good, nonzero, kk == 0), fsame(ci, st.ghost["cl0"].get(i)))))
            out.append(("the code length is finite when something is kept", z3.Implies(z3.And(good, nonzero, kk != 0), ci.is_fin())))
            out.append(("code length = -(k/2) ln 3 + sum over the kept parameters of (1/2 ln fish_j + ln|p_j|), k the number kept",
                        z3.Implies(z3.And(good, nonzero, kk != 0), ci.val == -z3.ToReal(kk) / 2 * LN(z3.RealVal(3)) + M_.SUMR(spec_arr, m))))
        else:
            some = nsnap > 0
            out.append(("when snapping makes the likelihood infinite the ORIGINAL converted parameters are reported (nothing zeroed), zero padded",
                        z3.Implies(z3.And(good, some, cin), z3.And(as_float(P.get(i, c)).is_fin(), as_float(P.get(i, c)).val == z3.If(c < K0, as_float(p0.get(c)).val, 0)))))
            out.append(("... and the unique function's likelihood is kept", z3.Implies(z3.And(good, some), fsame(nl.get(i), st.ghost["nll0"].get(i)))))
        return out

    def nsteps_lemma(S, st, node=None):
        """after the last store into Nsteps: on regular input (every fish entry positive and finite) Nsteps is |p| / sqrt(12 / fish), entry by entry
        (Skolem index, then generalised) -- the masks fish != 0 and Delta != 0 are then all true"""
        if not (isinstance(node, ast.Assign) and isinstance(node.value, ast.Attribute) and node.value.attr == "nan"):
            return
        p0, f0 = st.ghost["p0"], st.ghost["f0"]
        kq = z3.Int("k!good")
        allpos = z3.ForAll([kq], z3.Implies(z3.And(0 <= kq, kq < K0), z3.And(f0.get(kq).is_fin(), f0.get(kq).val > 0)))
        N = nsteps(p0, f0)
        ns = S.seq(S.var("Nsteps"))
        q0 = z3.Int(fresh_name("q!sk"))
        if variant == "any":
            return
        S.eng.oblige(st, "lemma: on regular input Nsteps[q] = |p[q]| / sqrt(12 / fish[q]) for every q (the two masks are all true)",
                     z3.Implies(z3.And(allpos, 0 <= q0, q0 < K0), z3.And(ns.len == K0, fsame(as_float(ns.get(q0)), N(q0)))), "lemma", node)
        # from here on the array is described by the closed form (the variants with this hook REQUIRE regular input)
        st.heap[S.var("Nsteps").addr] = HSeq(K0, lambda q: N(q), numpy=True, etype=T.float)

    def mk_p(eng, st):
        v = eng.fresh(T.arr(T.real), "p", st)
        st.heap[v.addr].len = K0
        st.ghost["p0"] = st.heap[v.addr]
        return v

    def mk_fish(eng, st):
        v = eng.fresh(T.arr(T.float), "fish", st)
        st.heap[v.addr].len = K0
        st.ghost["f0"] = st.heap[v.addr]
        return v

    c = Contract("main", {"p": mk_p, "fish": mk_fish, "i": T.int, "codelen": arr("codelen", T.float, NP), "negloglike_all": arr("negloglike_all", T.float, NP),
                          "params": mk_params, "fcn_i": T.label, "likelihood": mk_like, "fop": T.fn, "f1": T.fn},
                 requires=requires, ensures=ensures, setup=setup, region=region_first if variant == "any" else region_snap,
                 raises=lambda S, a, e: z3.BoolVal(False), hooks={"Nsteps[]": nsteps_lemma})
    c.region_name = "snapping, code length and reported row (%s likelihood)" % variant
    c.loop_select = loop_select
    if variant == "any":
        c.optional_hooks = ("Nsteps[]",)          # the variant for arbitrary input needs no closed form of Nsteps

    def no_bad_entry(S, st, node):
        # regular input: the count of non-positive entries tested by the first `if` is zero (so that branch is not taken)
        if variant == "any" or st.ghost.get("nobad_done"):
            return
        st.ghost = dict(st.ghost)
        st.ghost["nobad_done"] = True
        f0 = st.ghost["f0"]
        n0 = len(S.eng.axioms)
        bm = M_.mask_array(S.eng, st, lambda q: fle(as_float(f0.get(q)), as_float(VInt(0))))
        M_.filter_axioms(S.eng, bm, K0)
        S.eng.oblige(st, "lemma: on regular input no diagonal entry is <= 0 (the count tested by the first `if` is zero)", CNT(bm, K0) == 0, "lemma", node,
                     axioms=S.eng.axioms[n0:])
        st.assume(CNT(bm, K0) == 0)
    no_bad_entry.optional = (variant == "any")
    c.stmt_hooks = [(lambda node: isinstance(node, ast.If) and "fish" in ast.dump(node.test) and "LtE" in ast.dump(node.test), no_bad_entry)]
    return c


M_ = M
