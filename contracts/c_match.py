"""Sidecar contract for the guard of esr/fitting/match.py::main (C05): which variants are skipped with an infinite code length.

Region = the `if` statement of the loop body that tests the loaded chain of substitutions with isinstance(..., dict) and assigns
codelen[i] = np.inf.  A chain entry is an opaque object that either is a dict (a recoverable substitution) or is not (nan)."""
import ast
import z3
from pyvc.engine import Contract
from pyvc.values import T, VInt, VFloat, VConc, VNone, HSeq, Unsupported, fsame
from pyvc import models as M


def region_guard(fnode):
    for s in ast.walk(fnode):
        if isinstance(s, ast.If) and "isinstance" in ast.dump(s.test) and "all_inv_subs_proc" in ast.dump(s.test):
            if any(isinstance(b, ast.Assign) and "codelen" in ast.dump(b.targets[0]) for b in s.body):
                return [s]
    return None


def guard_contract():
    NP = z3.Int("NP")

    def mk_chains(eng, st):
        v = eng.fresh(T.list(T.list(T.fn)), "all_inv_subs_proc", st)
        st.heap[v.addr].len = NP
        return v

    def mk_codelen(eng, st):
        v = eng.fresh(T.arr(T.float), "codelen", st)
        st.heap[v.addr].len = NP
        st.ghost["codelen0"] = st.heap[v.addr]
        return v

    def requires(S, a):
        return [("0 <= i < NP", z3.And(0 <= a["i"].t, a["i"].t < NP))]

    def ensures(S, a, res):
        st = S.st
        i = a["i"].t
        chain = S.seq(S.get(a["all_inv_subs_proc"], i))
        k = z3.Int("k!g")
        unrec = z3.Exists([k], z3.And(0 <= k, k < chain.len, z3.Not(M.ISDICT(chain.get(k).t))))
        cl = S.seq(a["codelen"])
        skipped = z3.BoolVal(isinstance(res, VConc) and res.name == "continue")
        return [("a chain with an unrecoverable (non-dict) entry is skipped with an infinite code length", z3.Implies(unrec, z3.And(skipped, cl.get(i).is_pinf()))),
                ("a chain of recoverable substitutions (dicts only, any length) is NOT skipped and its code length is untouched here",
                 z3.Implies(z3.Not(unrec), z3.And(z3.Not(skipped), fsame(cl.get(i), st.ghost["codelen0"].get(i)))))]

    c = Contract("main", {"all_inv_subs_proc": mk_chains, "codelen": mk_codelen, "i": T.int},
                 requires=requires, ensures=ensures, region=region_guard, raises=lambda S, a, e: z3.BoolVal(False))
    c.region_name = "guard on the loaded chain"
    return c
